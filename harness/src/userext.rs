//! User extension points the model has no descriptor for, checked against the property statements
//! directly on the implementation: a hand-written fallible `CompactAs`, and recursion far deeper
//! than any test value (the theorems cover every depth; this ties the crate's side).

use crate::derived::{Chain, Percent, UNode, UsesPercent};
use crate::modeled::hex_or_dash;
use crate::rng::Rng;
use crate::Ctx;
use parity_scale_codec::{Compact, Decode, DecodeAll, DecodeLimit, Encode, HasCompact};
use std::panic::{catch_unwind, AssertUnwindSafe};

fn dec_skip<T: Decode + PartialEq + core::fmt::Debug>(bs: &[u8]) -> (Option<(T, usize)>, Option<usize>) {
	let d = catch_unwind(AssertUnwindSafe(|| {
		let mut s = bs;
		T::decode(&mut s).ok().map(|v| (v, s.len()))
	}))
	.unwrap_or(None);
	let k = catch_unwind(AssertUnwindSafe(|| {
		let mut s = bs;
		T::skip(&mut s).ok().map(|_| s.len())
	}))
	.unwrap_or(None);
	(d, k)
}

fn percent_cases(ctx: &mut Ctx) {
	let mut inputs: Vec<Vec<u8>> = vec![vec![]];
	for a in 0..=255u8 {
		inputs.push(vec![a]);
		for b in [0u8, 1, 2, 3, 4, 0x40, 0x64, 0x65, 0x7f, 0x80, 0xff] {
			inputs.push(vec![a, b]);
			inputs.push(vec![a, b, 0x11]);
		}
	}
	for bs in &inputs {
		ctx.count("userext:percent-inputs", 1);
		// the reference: Compact<u8> on the same bytes (tied to the model by the compact stream)
		let (base, _) = dec_skip::<Compact<u8>>(bs);
		let want = base.and_then(|(Compact(x), rem)| if x <= 100 { Some((x, rem)) } else { None });
		let (d, k) = dec_skip::<Compact<Percent>>(bs);
		let got = d.map(|(Compact(Percent(x)), rem)| (x, rem));
		if got != want {
			ctx.oracle_fail("C03", format!("Compact<Percent> (fallible CompactAs over u8) on {}: decode gives {:?}, expected {:?}", hex_or_dash(bs), got, want));
		}
		if k != want.map(|w| w.1) {
			ctx.oracle_fail("C18", format!("Compact<Percent> on {}: skip gives {:?} but decode {:?}", hex_or_dash(bs), k, want));
		}
		let (d2, k2) = dec_skip::<<Percent as HasCompact>::Type>(bs);
		if d2.map(|(c, rem)| (Percent::from(c).0, rem)) != want || k2 != want.map(|w| w.1) {
			ctx.oracle_fail("C18", format!("<Percent as HasCompact>::Type on {}: decode/skip disagree with Compact<u8> + range check", hex_or_dash(bs)));
		}
		// a struct with the field in the middle: tag, share, rest
		let mut s = vec![7u8];
		s.extend_from_slice(bs);
		s.extend_from_slice(&[0x34, 0x12, 0xee]);
		let (d3, k3) = dec_skip::<UsesPercent>(&s);
		let want3 = dec_skip::<Compact<u8>>(&s[1..]).0.and_then(|(Compact(x), rem)| {
			// the field is followed by a u16
			if x <= 100 && rem >= 2 {
				let pos = s.len() - rem;
				Some((UsesPercent { tag: 7, share: Percent(x), rest: u16::from_le_bytes([s[pos], s[pos + 1]]) }, rem - 2))
			} else {
				None
			}
		});
		if d3 != want3 {
			ctx.oracle_fail("C05", format!("UsesPercent on {}: decode gives {:?}, expected {:?}", hex_or_dash(&s), d3, want3));
		}
		if k3 != want3.as_ref().map(|w| w.1) {
			ctx.oracle_fail("C18", format!("UsesPercent on {}: skip gives {:?} but decode {:?}", hex_or_dash(&s), k3, want3.as_ref().map(|w| w.1)));
		}
	}
	for x in 0..=100u8 {
		let e = Compact(Percent(x)).encode();
		if e != Compact(x).encode() || Percent(x).encode() != vec![x] {
			ctx.oracle_fail("C16", format!("Compact<Percent>({}) does not encode like Compact<u8>", x));
		}
		let u = UsesPercent { tag: 1, share: Percent(x), rest: 515 };
		if UsesPercent::decode_all(&mut &u.encode()[..]).ok() != Some(u.clone()) {
			ctx.oracle_fail("C02", format!("UsesPercent with share {} does not round-trip", x));
		}
	}
}

/// Values nested thousands of levels deep, in a thread with a stack to match: every limit from the
/// depth upwards accepts exactly what unlimited decoding returns, every smaller one refuses.
fn deep_cases(ctx: &mut Ctx) {
	let depths: Vec<usize> = if ctx.tier_thorough { vec![300, 4095, 4096, 4097, 6000, 20000] } else { vec![300, 4096, 4097, 6000] };
	let seed = ctx.seed;
	let h = std::thread::Builder::new().stack_size(1 << 30).spawn(move || {
		let mut fails: Vec<String> = vec![];
		let mut rng = Rng::new(seed ^ 0xDEE9);
		for &d in &depths {
			// Chain: `head: u16, tail: Option<Box<Chain>>`, d boxes deep
			let mut bs = vec![];
			for _ in 0..d {
				bs.extend_from_slice(&[rng.below(256) as u8, 3, 1]);
			}
			bs.extend_from_slice(&[9, 9, 0]);
			let plain = Chain::decode(&mut &bs[..]).ok();
			if plain.is_none() {
				fails.push(format!("Chain of depth {}: unlimited decode failed", d));
				continue;
			}
			for l in [d, d + 1, d + 1000, 1 << 20, u32::MAX as usize] {
				let r = Chain::decode_with_depth_limit(l as u32, &mut &bs[..]).ok();
				if r != plain {
					fails.push(format!("Chain nested {} boxes deep: decode_with_depth_limit({}) does not return what unlimited decoding returns", d, l));
				}
				if Chain::decode_all_with_depth_limit(l as u32, &mut &bs[..]).ok() != plain {
					fails.push(format!("Chain nested {} boxes deep: decode_all_with_depth_limit({}) refuses the exact encoding", d, l));
				}
			}
			for l in [0usize, 1, d / 2, d - 1] {
				if Chain::decode_with_depth_limit(l as u32, &mut &bs[..]).is_ok() {
					fails.push(format!("Chain nested {} boxes deep: accepted under depth limit {}", d, l));
				}
			}
			// the same through a user wrapper with the provided decode_wrapped: `01` x d, `00`
			let mut us = vec![1u8; d];
			us.push(0);
			let plain = UNode::decode(&mut &us[..]).ok();
			if plain.is_none() {
				fails.push(format!("UNode of depth {}: unlimited decode failed", d));
				continue;
			}
			for l in [d, d + 1, u32::MAX as usize] {
				if UNode::decode_with_depth_limit(l as u32, &mut &us[..]).ok() != plain {
					fails.push(format!("UNode nested {} user wrappers deep: decode_with_depth_limit({}) differs from unlimited decoding", d, l));
				}
			}
			for l in [0usize, 1, 16, d - 1] {
				if UNode::decode_with_depth_limit(l as u32, &mut &us[..]).is_ok() {
					fails.push(format!("UNode nested {} user wrappers deep: accepted under depth limit {}", d, l));
				}
			}
			// drop iteratively-deep values inside this thread (its stack is large enough)
			drop(plain);
		}
		fails
	});
	match h.map(|h| h.join()) {
		Ok(Ok(fails)) => {
			ctx.count("userext:deep-depths", 4);
			for f in fails {
				ctx.oracle_fail("C11", f);
			}
		},
		_ => ctx.oracle_fail("C11", "the deep-nesting thread died".to_string()),
	}
}

/// A user type that overrides the PROVIDED `Decode::encoded_fixed_size` (a digest: always 32 bytes
/// on the wire) and keeps its bytes on the heap: it nests one level, and holds 32 tracked bytes -
/// whatever it reports about its encoded size.
#[derive(PartialEq, Eq, Debug, Clone)]
pub struct BoxedHash(pub Box<[u8; 32]>);
impl Encode for BoxedHash {
	fn encode_to<W: parity_scale_codec::Output + ?Sized>(&self, dest: &mut W) {
		self.0.encode_to(dest)
	}
}
impl Decode for BoxedHash {
	fn decode<I: parity_scale_codec::Input>(input: &mut I) -> Result<Self, parity_scale_codec::Error> {
		Ok(BoxedHash(<Box<[u8; 32]>>::decode(input)?))
	}
	fn encoded_fixed_size() -> Option<usize> {
		Some(32)
	}
}
impl parity_scale_codec::DecodeWithMemTracking for BoxedHash {}

/// A user type whose decoder steps over a byte string it does not need (`Bytes::skip`).
#[cfg(feature = "bytes-f")]
#[derive(PartialEq, Eq, Debug, Clone)]
pub struct SkipsBytes(pub u8, pub u16);
#[cfg(feature = "bytes-f")]
impl Decode for SkipsBytes {
	fn decode<I: parity_scale_codec::Input>(input: &mut I) -> Result<Self, parity_scale_codec::Error> {
		let a = u8::decode(input)?;
		<bytes::Bytes as Decode>::skip(input)?;
		let b = u16::decode(input)?;
		Ok(SkipsBytes(a, b))
	}
}

fn overriding_user_types(ctx: &mut Ctx) {
	use parity_scale_codec::{DecodeWithMemLimit, MemTrackingInput};
	let one: Vec<u8> = (0..32u8).collect();
	let four: Vec<u8> = (0..128u8).collect();
	// depth: BoxedHash nests 1; [BoxedHash; 4] nests 1; Vec<Box<[BoxedHash; 2]>> nests 3
	let r = catch_unwind(AssertUnwindSafe(|| {
		let mut vb = vec![2u8 << 2];
		vb.extend_from_slice(&four);
		(
			BoxedHash::decode_with_depth_limit(0, &mut &one[..]).is_ok(),
			BoxedHash::decode_with_depth_limit(1, &mut &one[..]).is_ok(),
			<[BoxedHash; 4]>::decode_with_depth_limit(0, &mut &four[..]).is_ok(),
			<[BoxedHash; 4]>::decode_with_depth_limit(1, &mut &four[..]).is_ok(),
			<[BoxedHash; 9]>::decode_with_depth_limit(0, &mut &[four.clone(), four.clone(), one.clone()].concat()[..]).is_ok(),
			<Vec<Box<[BoxedHash; 2]>>>::decode_with_depth_limit(2, &mut &vb[..]).is_ok(),
			<Vec<Box<[BoxedHash; 2]>>>::decode_with_depth_limit(3, &mut &vb[..]).is_ok(),
			<[BoxedHash; 4]>::decode_all_with_depth_limit(0, &mut &four[..]).is_ok(),
			<Option<[BoxedHash; 2]>>::decode_with_depth_limit(0, &mut &[vec![1u8], four[..64].to_vec()].concat()[..]).is_ok(),
		)
	}));
	if !matches!(r, Ok((false, true, false, true, false, false, true, false, false))) {
		ctx.oracle_fail("C11", format!("a user type reporting `encoded_fixed_size` and holding a Box (alone / [_; 4] / [_; 9] / Vec<Box<[_; 2]>> / decode_all / in an Option) under depth limits one short and sufficient: {:?}", r.ok()));
	}
	// memory: U = 32 per hash; a limit L succeeds iff L > U
	let r = catch_unwind(AssertUnwindSafe(|| {
		(
			BoxedHash::decode_with_mem_limit(&mut &one[..], 32).is_ok(),
			BoxedHash::decode_with_mem_limit(&mut &one[..], 33).is_ok(),
			BoxedHash::decode_with_mem_limit(&mut &one[..], 1).is_ok(),
			<[BoxedHash; 4]>::decode_with_mem_limit(&mut &four[..], 128).is_ok(),
			<[BoxedHash; 4]>::decode_with_mem_limit(&mut &four[..], 129).is_ok(),
			{
				let mut s = &four[..];
				let mut m = MemTrackingInput::new(&mut s, 1000);
				let ok = <[BoxedHash; 4]>::decode(&mut m).is_ok();
				(ok, m.used_mem())
			},
			<(u8, BoxedHash)>::decode_with_mem_limit(&mut &four[..33], 32).is_ok(),
		)
	}));
	if !matches!(r, Ok((false, true, false, false, true, (true, 128), false))) {
		ctx.oracle_fail("C12", format!("a user type reporting `encoded_fixed_size` and holding 32 heap bytes, under memory limits at / above the tracked usage (alone 32|33|1, [_; 4] 128|129, used_mem, in a tuple): {:?}", r.ok()));
	}
	ctx.count("userext:overriding-types", 16);
	// a decoder that steps over a `Bytes` it does not need: from a slice and out of a shared buffer
	// (`decode_from_bytes`), complete and cut at every length
	#[cfg(feature = "bytes-f")]
	{
		let mut full = vec![9u8];
		full.extend_from_slice(&Compact(5u32).encode());
		full.extend_from_slice(b"hello");
		full.extend_from_slice(&[0x34, 0x12]);
		for cut in 0..=full.len() {
			let bs = &full[..cut];
			let a = catch_unwind(AssertUnwindSafe(|| SkipsBytes::decode(&mut &bs[..]).ok()));
			let b = catch_unwind(AssertUnwindSafe(|| parity_scale_codec::decode_from_bytes::<SkipsBytes>(bytes::Bytes::copy_from_slice(bs)).ok()));
			let c = catch_unwind(AssertUnwindSafe(|| parity_scale_codec::decode_from_bytes::<(SkipsBytes, u8)>(bytes::Bytes::copy_from_slice(bs)).ok().map(|x| x.0)));
			let want = if cut == full.len() { Some(SkipsBytes(9, 0x1234)) } else { None };
			if !matches!((&a, &b), (Ok(x), Ok(y)) if *x == want && *y == want) || !matches!(&c, Ok(None)) {
				let msg = format!("a decoder calling Bytes::skip, on the first {} of {} bytes: from a slice {:?}, with decode_from_bytes {:?} (expected {:?}); followed by one more field {:?} (expected a failure)", cut, full.len(), a.ok(), b.ok(), want, c.ok());
				ctx.oracle_fail("C18", msg.clone());
				ctx.oracle_fail("C08", msg);
			}
		}
		ctx.count("userext:skips-bytes", full.len() as u64 + 1);
	}
}

/// A key type whose order ignores case: equal keys need not be identical, so it matters WHICH of two
/// equal keys a decoded set or map keeps - the same one whatever the input is read from.
#[derive(Debug, Clone, Encode, Decode)]
pub struct CiName(pub String);
impl PartialEq for CiName {
	fn eq(&self, o: &Self) -> bool {
		self.0.eq_ignore_ascii_case(&o.0)
	}
}
impl Eq for CiName {}
impl PartialOrd for CiName {
	fn partial_cmp(&self, o: &Self) -> Option<core::cmp::Ordering> {
		Some(self.cmp(o))
	}
}
impl Ord for CiName {
	fn cmp(&self, o: &Self) -> core::cmp::Ordering {
		self.0.to_ascii_lowercase().cmp(&o.0.to_ascii_lowercase())
	}
}

/// A zero-width "end of input" marker: reads nothing, fails unless the input is exhausted, and says
/// (truthfully) that its encoded size is 0.
#[derive(Debug, PartialEq, Eq, Clone, Copy)]
pub struct EndMarker;
impl Decode for EndMarker {
	fn decode<I: parity_scale_codec::Input>(input: &mut I) -> Result<Self, parity_scale_codec::Error> {
		match input.remaining_len()? {
			Some(0) | None => Ok(EndMarker),
			Some(_) => Err("data after the end marker".into()),
		}
	}
	fn encoded_fixed_size() -> Option<usize> {
		Some(0)
	}
}

fn order_and_marker_types(ctx: &mut Ctx) {
	use std::collections::{BTreeMap, BTreeSet};
	// non-canonical encodings with keys that are equal under the order but not identical
	let names = ["alice", "ALICE", "Bob", "alIce", "bob", "carol", "BOB"];
	let mut set_bytes = Compact(names.len() as u32).encode();
	let mut map_bytes = Compact(names.len() as u32).encode();
	for (i, n) in names.iter().enumerate() {
		set_bytes.extend_from_slice(&n.to_string().encode());
		map_bytes.extend_from_slice(&n.to_string().encode());
		map_bytes.push(i as u8);
	}
	set_bytes.push(0x77);
	map_bytes.push(0x77);
	macro_rules! everywhere { ($t:ty, $bs:expr, $label:expr) => {{
		let bs: &Vec<u8> = &$bs;
		let from_slice = catch_unwind(AssertUnwindSafe(|| {
			let mut s = &bs[..];
			<$t>::decode(&mut s).ok().map(|v| (v.encode(), s.len()))
		}))
		.unwrap_or(None);
		let mut others: Vec<(&str, Option<(Vec<u8>, usize)>)> = vec![];
		others.push(("an unknown-length input", catch_unwind(AssertUnwindSafe(|| {
			let mut u = crate::userext::Unk2 { data: &bs[..], pos: 0 };
			<$t>::decode(&mut u).ok().map(|v| (v.encode(), bs.len() - u.pos))
		})).unwrap_or(None)));
		#[cfg(feature = "codec-std")]
		others.push(("IoReader", catch_unwind(AssertUnwindSafe(|| {
			let mut io = parity_scale_codec::IoReader(std::io::Cursor::new(&bs[..]));
			<$t>::decode(&mut io).ok().map(|v| (v.encode(), bs.len() - io.0.position() as usize))
		})).unwrap_or(None)));
		others.push(("a counting input over an unknown-length input", catch_unwind(AssertUnwindSafe(|| {
			let mut u = crate::userext::Unk2 { data: &bs[..], pos: 0 };
			let mut c = parity_scale_codec::CountedInput::new(&mut u);
			<$t>::decode(&mut c).ok().map(|v| (v.encode(), bs.len() - u.pos))
		})).unwrap_or(None)));
		for (kind, got) in others {
			if got != from_slice || from_slice.is_none() {
				ctx.oracle_fail("C08", format!("{} with keys equal under a case-insensitive order: from a slice {:?}, from {} {:?} (re-encoded value, bytes left)", $label, from_slice.as_ref().map(|x| (hex_or_dash(&x.0), x.1)), kind, got.as_ref().map(|x| (hex_or_dash(&x.0), x.1))));
			}
		}
	}}; }
	everywhere!(BTreeSet<CiName>, set_bytes, "BTreeSet<CiName>");
	everywhere!(BTreeMap<CiName, u8>, map_bytes, "BTreeMap<CiName, u8>");
	everywhere!((u8, BTreeSet<CiName>), [vec![5u8], set_bytes.clone()].concat(), "(u8, BTreeSet<CiName>)");
	ctx.count("userext:order-cases", 3);
	// `skip` fails exactly where `decode` fails - also for a type that reads nothing
	for (label, bs) in [("exhausted input", vec![]), ("data left", vec![1u8, 2])] {
		macro_rules! same { ($t:ty, $name:expr) => {{
			let d = catch_unwind(AssertUnwindSafe(|| { let mut s = &bs[..]; <$t>::decode(&mut s).is_ok() }));
			let k = catch_unwind(AssertUnwindSafe(|| { let mut s = &bs[..]; <$t>::skip(&mut s).is_ok() }));
			if !matches!((&d, &k), (Ok(a), Ok(b)) if a == b) {
				ctx.oracle_fail("C18", format!("{} on {}: decode ok = {:?}, skip ok = {:?}", $name, label, d.ok(), k.ok()));
			}
		}}; }
		same!(EndMarker, "EndMarker");
		same!([EndMarker; 2], "[EndMarker; 2]");
		same!([[EndMarker; 2]; 3], "[[EndMarker; 2]; 3]");
		same!((u8, [EndMarker; 1]), "(u8, [EndMarker; 1])");
		same!(Option<[EndMarker; 4]>, "Option<[EndMarker; 4]>");
	}
	ctx.count("userext:end-marker-cases", 10);
}

/// An input that cannot report its remaining length.
pub struct Unk2<'a> {
	pub data: &'a [u8],
	pub pos: usize,
}
impl parity_scale_codec::Input for Unk2<'_> {
	fn remaining_len(&mut self) -> Result<Option<usize>, parity_scale_codec::Error> {
		Ok(None)
	}
	fn read(&mut self, into: &mut [u8]) -> Result<(), parity_scale_codec::Error> {
		if into.len() > self.data.len() - self.pos {
			return Err("eof".into());
		}
		into.copy_from_slice(&self.data[self.pos..self.pos + into.len()]);
		self.pos += into.len();
		Ok(())
	}
}

/// Which types carry the `DecodeWithMemTracking` marker is part of C12 ("every type it is offered
/// for announces what it allocates"): a user type that allocates WITHOUT announcing does not carry
/// it, and no wrapper the crate provides may smuggle it in.
#[derive(Debug, Clone, PartialEq, Encode, Decode)]
pub struct NoTrack(pub Vec<u8>);

fn marker_probes(ctx: &mut Ctx) {
	#[allow(unused_imports)]
	use crate::probe::{Fallback, Probe};
	use std::borrow::Cow;
	let expect: [(&str, bool, bool); 14] = [
		("NoTrack", <Probe<NoTrack>>::IS_DWMT, false),
		("Cow<NoTrack>", <Probe<Cow<'static, NoTrack>>>::IS_DWMT, false),
		("Box<NoTrack>", <Probe<Box<NoTrack>>>::IS_DWMT, false),
		("Vec<NoTrack>", <Probe<Vec<NoTrack>>>::IS_DWMT, false),
		("Option<NoTrack>", <Probe<Option<NoTrack>>>::IS_DWMT, false),
		("(u8, NoTrack)", <Probe<(u8, NoTrack)>>::IS_DWMT, false),
		("[NoTrack; 2]", <Probe<[NoTrack; 2]>>::IS_DWMT, false),
		("Rc<NoTrack>", <Probe<std::rc::Rc<NoTrack>>>::IS_DWMT, false),
		("BTreeMap<u8, NoTrack>", <Probe<std::collections::BTreeMap<u8, NoTrack>>>::IS_DWMT, false),
		("Vec<Cow<NoTrack>>", <Probe<Vec<Cow<'static, NoTrack>>>>::IS_DWMT, false),
		("Cow<Vec<u8>>", <Probe<Cow<'static, Vec<u8>>>>::IS_DWMT, true),
		("Vec<u8>", <Probe<Vec<u8>>>::IS_DWMT, true),
		("BoxedHash", <Probe<BoxedHash>>::IS_DWMT, true),
		("Result<Vec<u8>, NoTrack>", <Probe<Result<Vec<u8>, NoTrack>>>::IS_DWMT, false),
	];
	for (name, got, want) in expect {
		if got != want {
			ctx.oracle_fail("C12", format!("{}: DecodeWithMemTracking implemented = {}, expected {} (NoTrack allocates without announcing and does not carry the marker)", name, got, want));
		}
	}
	ctx.count("userext:marker-probes", 14);
}

pub fn userext_stream(ctx: &mut Ctx) {
	marker_probes(ctx);
	order_and_marker_types(ctx);
	percent_cases(ctx);
	deep_cases(ctx);
	overriding_user_types(ctx);
}
