#![allow(unused_variables)]
//! `Modeled`: the pairing of a Rust type with its descriptor in the Lean model, implemented once
//! per type constructor. A concrete type's descriptor, value text and generator are computed from
//! the Rust type itself.

use crate::rng::Rng;
use core::marker::PhantomData;
use core::mem::size_of;
use core::num::*;
use core::ops::{Range, RangeInclusive};
use core::time::Duration;
use parity_scale_codec::{Compact, OptionBool};
use std::borrow::Cow;
use std::collections::{BTreeMap, BTreeSet, BinaryHeap, LinkedList, VecDeque};
use std::fmt::Write;
use std::rc::Rc;
use std::sync::Arc;

pub struct G {
	pub rng: Rng,
	/// Remaining element budget of the value being generated (bounds total size).
	pub budget: usize,
	/// Remaining nesting depth for recursive generators.
	pub depth: u32,
}

impl G {
	pub fn new(seed: u64, budget: usize) -> Self {
		G { rng: Rng::new(seed), budget, depth: 6 }
	}
	pub fn take_len(&mut self) -> usize {
		let l = self.rng.len(self.budget);
		self.budget -= l.min(self.budget);
		l
	}
}

pub trait Modeled: Sized {
	/// Type descriptor in the model's prefix notation. `d`: how deep recursive types are unfolded
	/// (passed down unchanged by every constructor; only recursive derived types look at it).
	fn ty(d: usize) -> String;
	/// Value text. `canon`: heaps are printed sorted (comparison of decoded values); otherwise in
	/// iteration order (the order the encoder sees).
	fn val(&self, out: &mut String, canon: bool);
	fn gen(g: &mut G) -> Self;
	/// Minimal encoded length of any value of the type (0 for zero-width encodings).
	fn min_len() -> usize;
}

pub fn val_string<T: Modeled>(v: &T, canon: bool) -> String {
	let mut s = String::new();
	v.val(&mut s, canon);
	s
}

macro_rules! uint_impl {
	($($t:ty, $name:expr, $bits:expr);*) => {$(
		impl Modeled for $t {
			fn ty(d: usize) -> String { $name.into() }
			fn val(&self, out: &mut String, _c: bool) { write!(out, "n{}", self).unwrap(); }
			fn gen(g: &mut G) -> Self { g.rng.biased($bits) as $t }
			fn min_len() -> usize { $bits / 8 }
		}
	)*}
}
uint_impl!(u8, "u8", 8; u16, "u16", 16; u32, "u32", 32; u64, "u64", 64; u128, "u128", 128);

macro_rules! sint_impl {
	($($t:ty, $name:expr, $bits:expr);*) => {$(
		impl Modeled for $t {
			fn ty(d: usize) -> String { $name.into() }
			fn val(&self, out: &mut String, _c: bool) { write!(out, "i{}", self).unwrap(); }
			fn gen(g: &mut G) -> Self { g.rng.biased($bits) as $t }
			fn min_len() -> usize { $bits / 8 }
		}
	)*}
}
sint_impl!(i8, "i8", 8; i16, "i16", 16; i32, "i32", 32; i64, "i64", 64; i128, "i128", 128);

impl Modeled for f32 {
	fn ty(d: usize) -> String {
		"f32".into()
	}
	fn val(&self, out: &mut String, _c: bool) {
		write!(out, "n{}", self.to_bits()).unwrap();
	}
	fn gen(g: &mut G) -> Self {
		// now and then a special: signalling / quiet NaNs with payloads, infinities, negative zero
		if g.rng.chance(1, 6) {
			return f32::from_bits(*g.rng.pick(&[0x7f80_0001u32, 0x7fa0_0000, 0xff80_0001, 0x7fbf_ffff, 0x7fc0_0000, 0x7fc0_0001, 0xffc0_0000, 0x7f80_0000, 0xff80_0000, 0x8000_0000, 0x0000_0001]));
		}
		f32::from_bits(g.rng.biased(32) as u32)
	}
	fn min_len() -> usize {
		4
	}
}
impl Modeled for f64 {
	fn ty(d: usize) -> String {
		"f64".into()
	}
	fn val(&self, out: &mut String, _c: bool) {
		write!(out, "n{}", self.to_bits()).unwrap();
	}
	fn gen(g: &mut G) -> Self {
		if g.rng.chance(1, 6) {
			return f64::from_bits(*g.rng.pick(&[0x7ff0_0000_0000_0001u64, 0x7ff4_0000_0000_0000, 0xfff0_0000_0000_0001, 0x7ff7_ffff_ffff_ffff, 0x7ff8_0000_0000_0000, 0x7ff8_0000_0000_0001, 0x7ff0_0000_0000_0000, 0xfff0_0000_0000_0000, 0x8000_0000_0000_0000, 1]));
		}
		f64::from_bits(g.rng.biased(64) as u64)
	}
	fn min_len() -> usize {
		8
	}
}

macro_rules! nz_impl {
	($($t:ty, $inner:ty, $name:expr, $pfx:expr);*) => {$(
		impl Modeled for $t {
			fn ty(d: usize) -> String { format!("nz {}", $name) }
			fn val(&self, out: &mut String, _c: bool) { write!(out, "{}{}", $pfx, self.get()).unwrap(); }
			fn gen(g: &mut G) -> Self {
				let v = <$inner as Modeled>::gen(g);
				<$t>::new(v).unwrap_or(<$t>::new(1).unwrap())
			}
			fn min_len() -> usize { size_of::<$t>() }
		}
	)*}
}
nz_impl!(NonZeroU8, u8, "u8", "n"; NonZeroU16, u16, "u16", "n"; NonZeroU32, u32, "u32", "n";
	NonZeroU64, u64, "u64", "n"; NonZeroU128, u128, "u128", "n";
	NonZeroI8, i8, "i8", "i"; NonZeroI16, i16, "i16", "i"; NonZeroI32, i32, "i32", "i";
	NonZeroI64, i64, "i64", "i"; NonZeroI128, i128, "i128", "i");

macro_rules! compact_impl {
	($($t:ty, $w:expr);*) => {$(
		impl Modeled for Compact<$t> {
			fn ty(d: usize) -> String { format!("c {}", $w) }
			fn val(&self, out: &mut String, _c: bool) { write!(out, "n{}", self.0).unwrap(); }
			fn gen(g: &mut G) -> Self { Compact(<$t as Modeled>::gen(g)) }
			fn min_len() -> usize { 1 }
		}
	)*}
}
compact_impl!(u8, 1; u16, 2; u32, 4; u64, 8; u128, 16);

impl Modeled for () {
	fn ty(d: usize) -> String {
		"unit".into()
	}
	fn val(&self, out: &mut String, _c: bool) {
		out.push('U');
	}
	fn gen(_g: &mut G) -> Self {}
	fn min_len() -> usize {
		0
	}
}
impl Modeled for Compact<()> {
	fn ty(d: usize) -> String {
		"unit".into()
	}
	fn val(&self, out: &mut String, _c: bool) {
		out.push('U');
	}
	fn gen(_g: &mut G) -> Self {
		Compact(())
	}
	fn min_len() -> usize {
		0
	}
}
impl<T> Modeled for PhantomData<T> {
	fn ty(d: usize) -> String {
		"unit".into()
	}
	fn val(&self, out: &mut String, _c: bool) {
		out.push('U');
	}
	fn gen(_g: &mut G) -> Self {
		PhantomData
	}
	fn min_len() -> usize {
		0
	}
}
impl Modeled for bool {
	fn ty(d: usize) -> String {
		"bool".into()
	}
	fn val(&self, out: &mut String, _c: bool) {
		out.push(if *self { 't' } else { 'f' });
	}
	fn gen(g: &mut G) -> Self {
		g.rng.chance(1, 2)
	}
	fn min_len() -> usize {
		1
	}
}
impl Modeled for OptionBool {
	fn ty(d: usize) -> String {
		"obool".into()
	}
	fn val(&self, out: &mut String, _c: bool) {
		match self.0 {
			None => out.push('N'),
			Some(true) => out.push_str("S t"),
			Some(false) => out.push_str("S f"),
		}
	}
	fn gen(g: &mut G) -> Self {
		OptionBool(match g.rng.below(3) {
			0 => None,
			1 => Some(true),
			_ => Some(false),
		})
	}
	fn min_len() -> usize {
		1
	}
}
impl<T: Modeled> Modeled for Option<T> {
	fn ty(d: usize) -> String {
		format!("opt {}", T::ty(d))
	}
	fn val(&self, out: &mut String, c: bool) {
		match self {
			None => out.push('N'),
			Some(v) => {
				out.push_str("S ");
				v.val(out, c)
			},
		}
	}
	fn gen(g: &mut G) -> Self {
		if g.rng.chance(1, 4) {
			None
		} else {
			Some(T::gen(g))
		}
	}
	fn min_len() -> usize {
		1
	}
}
impl<T: Modeled, E: Modeled> Modeled for Result<T, E> {
	fn ty(d: usize) -> String {
		format!("res {} {}", T::ty(d), E::ty(d))
	}
	fn val(&self, out: &mut String, c: bool) {
		match self {
			Ok(v) => {
				out.push_str("O ");
				v.val(out, c)
			},
			Err(e) => {
				out.push_str("E ");
				e.val(out, c)
			},
		}
	}
	fn gen(g: &mut G) -> Self {
		if g.rng.chance(1, 2) {
			Ok(T::gen(g))
		} else {
			Err(E::gen(g))
		}
	}
	fn min_len() -> usize {
		1 + T::min_len().min(E::min_len())
	}
}

macro_rules! tuple_impl {
	($n:expr; $($T:ident $i:tt),+) => {
		impl<$($T: Modeled),+> Modeled for ($($T,)+) {
			fn ty(d: usize) -> String {
				let mut s = format!("tup {}", $n);
				$( s.push(' '); s.push_str(&$T::ty(d)); )+
				s
			}
			fn val(&self, out: &mut String, c: bool) {
				write!(out, "L {}", $n).unwrap();
				$( out.push(' '); self.$i.val(out, c); )+
			}
			fn gen(g: &mut G) -> Self { ($($T::gen(g),)+) }
			fn min_len() -> usize { 0 $(+ $T::min_len())+ }
		}
	}
}
tuple_impl!(1; A 0);
tuple_impl!(2; A 0, B 1);
tuple_impl!(3; A 0, B 1, C 2);
tuple_impl!(4; A 0, B 1, C 2, D 3);
tuple_impl!(18; A 0, B 1, C 2, D 3, E 4, F 5, G0 6, H 7, I 8, J 9, K 10, L 11, M 12, N 13, O 14, P 15, Q 16, R 17);

fn seq_val<'a, T: Modeled + 'a>(it: impl ExactSizeIterator<Item = &'a T>, out: &mut String, c: bool) {
	write!(out, "L {}", it.len()).unwrap();
	for v in it {
		// no value of the unchanged crate comes near this; a (mutated) decoder that returns a
		// collection of 2^32 zero-width elements must not exhaust the harness's memory
		if out.len() > VAL_TEXT_CAP {
			out.push_str(" ...truncated");
			return;
		}
		out.push(' ');
		v.val(out, c);
	}
}

/// Longest value text built for one answer (32 MiB).
pub const VAL_TEXT_CAP: usize = 32 << 20;

impl<T: Modeled, const N: usize> Modeled for [T; N] {
	fn ty(d: usize) -> String {
		format!("arr {} {}", N, T::ty(d))
	}
	fn val(&self, out: &mut String, c: bool) {
		seq_val(self.iter(), out, c)
	}
	fn gen(g: &mut G) -> Self {
		core::array::from_fn(|_| T::gen(g))
	}
	fn min_len() -> usize {
		N * T::min_len()
	}
}

fn gen_vec<T: Modeled>(g: &mut G) -> Vec<T> {
	let n = g.take_len();
	(0..n).map(|_| T::gen(g)).collect()
}

impl<T: Modeled> Modeled for Vec<T> {
	fn ty(d: usize) -> String {
		format!("vec {} {}", size_of::<T>(), T::ty(d))
	}
	fn val(&self, out: &mut String, c: bool) {
		seq_val(self.iter(), out, c)
	}
	fn gen(g: &mut G) -> Self {
		gen_vec(g)
	}
	fn min_len() -> usize {
		1
	}
}
impl<T: Modeled> Modeled for VecDeque<T> {
	fn ty(d: usize) -> String {
		format!("deque {} {}", size_of::<T>(), T::ty(d))
	}
	fn val(&self, out: &mut String, c: bool) {
		seq_val(self.iter(), out, c)
	}
	fn gen(g: &mut G) -> Self {
		// build through a history so that the ring buffer is often wrapped
		let v: Vec<T> = gen_vec(g);
		let mut d = VecDeque::with_capacity(v.len().max(1));
		let k = g.rng.below(4);
		for (i, x) in v.into_iter().enumerate() {
			if k == 0 || (k == 1 && i % 2 == 0) {
				d.push_front(x)
			} else {
				d.push_back(x)
			}
		}
		if k >= 2 && !d.is_empty() {
			let r = g.rng.below(d.len() as u64) as usize;
			d.rotate_left(r);
		}
		d
	}
	fn min_len() -> usize {
		1
	}
}
impl<T: Modeled> Modeled for LinkedList<T> {
	fn ty(d: usize) -> String {
		format!("list {} {}", size_of::<(usize, usize, T)>(), T::ty(d))
	}
	fn val(&self, out: &mut String, c: bool) {
		seq_val(self.iter(), out, c)
	}
	fn gen(g: &mut G) -> Self {
		gen_vec::<T>(g).into_iter().collect()
	}
	fn min_len() -> usize {
		1
	}
}
impl<T: Modeled + Ord> Modeled for BinaryHeap<T> {
	fn ty(d: usize) -> String {
		format!("heap {} {}", size_of::<T>(), T::ty(d))
	}
	fn val(&self, out: &mut String, c: bool) {
		if c {
			let mut v: Vec<&T> = self.iter().collect();
			v.sort();
			write!(out, "L {}", v.len()).unwrap();
			for x in v {
				out.push(' ');
				x.val(out, c);
			}
		} else {
			seq_val(self.iter(), out, c)
		}
	}
	fn gen(g: &mut G) -> Self {
		gen_vec::<T>(g).into_iter().collect()
	}
	fn min_len() -> usize {
		1
	}
}
impl<T: Modeled + Ord> Modeled for BTreeSet<T> {
	fn ty(d: usize) -> String {
		format!("bset {} {}", size_of::<(usize, u16, u16, [T; 11])>(), T::ty(d))
	}
	fn val(&self, out: &mut String, c: bool) {
		seq_val(self.iter(), out, c)
	}
	fn gen(g: &mut G) -> Self {
		gen_vec::<T>(g).into_iter().collect()
	}
	fn min_len() -> usize {
		1
	}
}
impl<K: Modeled + Ord, V: Modeled> Modeled for BTreeMap<K, V> {
	fn ty(d: usize) -> String {
		format!("bmap {} tup 2 {} {}", size_of::<(usize, u16, u16, [(K, V); 11])>(), K::ty(d), V::ty(d))
	}
	fn val(&self, out: &mut String, c: bool) {
		write!(out, "L {}", self.len()).unwrap();
		for (k, v) in self.iter() {
			if out.len() > VAL_TEXT_CAP {
				out.push_str(" ...truncated");
				return;
			}
			out.push_str(" L 2 ");
			k.val(out, c);
			out.push(' ');
			v.val(out, c);
		}
	}
	fn gen(g: &mut G) -> Self {
		let n = g.take_len();
		(0..n).map(|_| (K::gen(g), V::gen(g))).collect()
	}
	fn min_len() -> usize {
		1
	}
}

pub fn gen_string(g: &mut G) -> String {
	let n = g.take_len();
	let mut s = String::new();
	for _ in 0..n {
		let c = match g.rng.below(8) {
			0 => char::from_u32(0x80 + g.rng.below(0x700) as u32),
			1 => char::from_u32(0x800 + g.rng.below(0xF000) as u32),
			2 => char::from_u32(0x10000 + g.rng.below(0x100000) as u32),
			3 => Some('\u{10FFFF}'),
			_ => char::from_u32(0x20 + g.rng.below(0x5f) as u32),
		};
		s.push(c.unwrap_or('?'));
	}
	s
}

pub fn hex(bs: &[u8]) -> String {
	let mut s = String::with_capacity(bs.len() * 2);
	for b in bs {
		write!(s, "{:02x}", b).unwrap();
	}
	s
}
pub fn hex_or_dash(bs: &[u8]) -> String {
	if bs.is_empty() {
		"-".into()
	} else {
		hex(bs)
	}
}

impl Modeled for String {
	fn ty(d: usize) -> String {
		"str".into()
	}
	fn val(&self, out: &mut String, _c: bool) {
		out.push('x');
		out.push_str(&hex(self.as_bytes()));
	}
	fn gen(g: &mut G) -> Self {
		gen_string(g)
	}
	fn min_len() -> usize {
		1
	}
}

macro_rules! holder_impl {
	($($h:ident),*) => {$(
		impl<T: Modeled> Modeled for $h<T> {
			fn ty(d: usize) -> String { format!("box {} {}", size_of::<T>(), T::ty(d)) }
			fn val(&self, out: &mut String, c: bool) { (**self).val(out, c) }
			fn gen(g: &mut G) -> Self { $h::new(T::gen(g)) }
			fn min_len() -> usize { T::min_len() }
		}
	)*}
}
holder_impl!(Box, Rc, Arc);

/// `Cow<T>` decodes through `T::Owned::decode` but has its own `Decode` impl (no `decode_into`,
/// `skip` or `encoded_fixed_size` override): on the wire and in its calls on `Input` it behaves
/// like the 1-tuple `(T,)`, which is how it is described to the model.
impl<'a, T: Modeled + Clone> Modeled for Cow<'a, T> {
	fn ty(d: usize) -> String {
		format!("tup 1 {}", T::ty(d))
	}
	fn val(&self, out: &mut String, c: bool) {
		out.push_str("L 1 ");
		(**self).val(out, c)
	}
	fn gen(g: &mut G) -> Self {
		Cow::Owned(T::gen(g))
	}
	fn min_len() -> usize {
		T::min_len()
	}
}

impl Modeled for Duration {
	fn ty(d: usize) -> String {
		"dur".into()
	}
	fn val(&self, out: &mut String, _c: bool) {
		write!(out, "L 2 n{} n{}", self.as_secs(), self.subsec_nanos()).unwrap();
	}
	fn gen(g: &mut G) -> Self {
		let nanos = match g.rng.below(4) {
			0 => 0,
			1 => 999_999_999,
			_ => g.rng.below(1_000_000_000) as u32,
		};
		Duration::new(g.rng.biased(64) as u64, nanos)
	}
	fn min_len() -> usize {
		12
	}
}
impl<T: Modeled> Modeled for Range<T> {
	fn ty(d: usize) -> String {
		format!("range {}", T::ty(d))
	}
	fn val(&self, out: &mut String, c: bool) {
		out.push_str("L 2 ");
		self.start.val(out, c);
		out.push(' ');
		self.end.val(out, c);
	}
	fn gen(g: &mut G) -> Self {
		T::gen(g)..T::gen(g)
	}
	fn min_len() -> usize {
		2 * T::min_len()
	}
}
impl<T: Modeled> Modeled for RangeInclusive<T> {
	fn ty(d: usize) -> String {
		format!("range {}", T::ty(d))
	}
	fn val(&self, out: &mut String, c: bool) {
		out.push_str("L 2 ");
		self.start().val(out, c);
		out.push(' ');
		self.end().val(out, c);
	}
	fn gen(g: &mut G) -> Self {
		T::gen(g)..=T::gen(g)
	}
	fn min_len() -> usize {
		2 * T::min_len()
	}
}

#[cfg(feature = "bitvec-f")]
mod integrations {
	use super::*;
	use bitvec::prelude::*;

	pub trait StoreName {
		const NAME: &'static str;
	}
	impl StoreName for u8 {
		const NAME: &'static str = "u8";
	}
	impl StoreName for u16 {
		const NAME: &'static str = "u16";
	}
	impl StoreName for u32 {
		const NAME: &'static str = "u32";
	}
	impl StoreName for u64 {
		const NAME: &'static str = "u64";
	}
	pub trait OrderName {
		const NAME: &'static str;
	}
	impl OrderName for Lsb0 {
		const NAME: &'static str = "lsb";
	}
	impl OrderName for Msb0 {
		const NAME: &'static str = "msb";
	}

	pub fn bits_val<T: BitStore, O: BitOrder>(b: &BitSlice<T, O>, out: &mut String) {
		out.push('b');
		for bit in b.iter().by_vals() {
			out.push(if bit { '1' } else { '0' });
		}
	}

	pub fn gen_bits<T: BitStore, O: BitOrder>(g: &mut G) -> BitVec<T, O>
	where
		T: From<u8>,
	{
		let w = core::mem::size_of::<T>() * 8;
		let n = match g.rng.below(6) {
			0 => 0,
			1 => g.rng.below(9) as usize,
			2 => w - 1 + g.rng.below(3) as usize,
			3 => 2 * w - 1 + g.rng.below(3) as usize,
			_ => g.rng.below(131) as usize,
		};
		match g.rng.below(4) {
			0 => {
				// dirty padding: built from whole (all-ones / random) storage words, then truncated,
				// so the bits beyond `len` in the last word are not zero in memory
				let words = n / w + 1;
				let mut raw: Vec<T> = Vec::new();
				for _ in 0..words {
					raw.push(T::from(if g.rng.chance(1, 2) { 0xff } else { g.rng.below(256) as u8 }));
				}
				let mut bv = BitVec::<T, O>::from_vec(raw);
				bv.truncate(n);
				bv
			},
			1 => {
				let mut bv = BitVec::<T, O>::repeat(true, n + g.rng.below(5) as usize);
				bv.truncate(n);
				bv
			},
			_ => {
				let mut bv = BitVec::<T, O>::new();
				// a prefix that is later dropped: the kept bits start at an offset inside the first word
				let skip = if g.rng.chance(1, 2) { g.rng.below(w as u64 * 2) as usize } else { 0 };
				for _ in 0..skip + n {
					bv.push(g.rng.chance(1, 2));
				}
				if skip > 0 {
					bv.split_off(skip)
				} else {
					bv
				}
			},
		}
	}

	impl<T: BitStore + StoreName + From<u8>, O: BitOrder + OrderName> Modeled for BitVec<T, O> {
		fn ty(d: usize) -> String {
			format!("bits {} {}", T::NAME, O::NAME)
		}
		fn val(&self, out: &mut String, _c: bool) {
			bits_val(self.as_bitslice(), out)
		}
		fn gen(g: &mut G) -> Self {
			gen_bits(g)
		}
		fn min_len() -> usize {
			1
		}
	}
	impl<T: BitStore + StoreName + From<u8>, O: BitOrder + OrderName> Modeled for BitBox<T, O> {
		fn ty(d: usize) -> String {
			format!("bits {} {}", T::NAME, O::NAME)
		}
		fn val(&self, out: &mut String, _c: bool) {
			bits_val(self.as_bitslice(), out)
		}
		fn gen(g: &mut G) -> Self {
			gen_bits::<T, O>(g).into_boxed_bitslice()
		}
		fn min_len() -> usize {
			1
		}
	}

}

#[cfg(feature = "bytes-f")]
mod bytes_integration {
	use super::*;
	impl Modeled for bytes::Bytes {
		fn ty(d: usize) -> String {
			"bytes".into()
		}
		fn val(&self, out: &mut String, _c: bool) {
			out.push('x');
			out.push_str(&hex(&self[..]));
		}
		fn gen(g: &mut G) -> Self {
			let v: Vec<u8> = gen_vec(g);
			bytes::Bytes::from(v)
		}
		fn min_len() -> usize {
			1
		}
	}

}

#[cfg(feature = "garray-f")]
mod garray_integration {
	use super::*;
	impl<T: Modeled, L: generic_array::ArrayLength<T>> Modeled for generic_array::GenericArray<T, L> {
		fn ty(d: usize) -> String {
			format!("garr {} {}", L::to_usize(), T::ty(d))
		}
		fn val(&self, out: &mut String, c: bool) {
			seq_val(self.iter(), out, c)
		}
		fn gen(g: &mut G) -> Self {
			generic_array::GenericArray::from_exact_iter((0..L::to_usize()).map(|_| T::gen(g))).unwrap()
		}
		fn min_len() -> usize {
			L::to_usize() * T::min_len()
		}
	}
}
#[cfg(feature = "bitvec-f")]
#[allow(unused_imports)]
pub use integrations::*;
