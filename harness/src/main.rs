//! Correspondence harness: generates requests, answers them by calling the real crate in-process,
//! and writes the request file (answered again by the Lean model `scale_model`) next to its own
//! answers. Oracle failures (the property's own predicate evaluated on the implementation alone)
//! are reported separately from model disagreements.

mod alloc;
mod append;
mod catalogue;
mod derived;
mod hist;
mod ledger;
mod like;
mod modeled;
mod probe;
mod rng;
#[cfg(feature = "codec-std")]
mod stacks;
mod streams;
mod userext;

use std::collections::BTreeMap;
use std::fs::File;
use std::io::{BufWriter, Write};

#[global_allocator]
static GLOBAL: alloc::Counting = alloc::Counting;

pub struct Ctx {
	pub seed: u64,
	pub tier_thorough: bool,
	req: BufWriter<File>,
	ans: BufWriter<File>,
	meta: BufWriter<File>,
	pub oracle_failures: Vec<String>,
	pub counts: BTreeMap<String, u64>,
	pub lines: u64,
	/// Encoded values of mixed types, for heterogeneous concatenations (C14).
	pub pool: Vec<PoolEntry>,
	/// where the request about to be executed is recorded (C09: attribution of aborts)
	pub current_path: String,
}

pub struct PoolEntry {
	pub name: &'static str,
	pub ty: fn(usize) -> String,
	pub bytes: Vec<u8>,
	pub val: String,
	/// decode from a slice: (answer line, remaining length on success)
	pub dec: fn(&[u8]) -> (String, Option<usize>),
	/// the same through an `IoReader` whose reader is interrupted between deliveries
	pub dec_io: fn(&[u8]) -> (String, Option<usize>),
}

impl Ctx {
	/// Record one request, the implementation's answer, and which stream/type produced it.
	pub fn emit(&mut self, stream: &str, ty_name: &str, req: &str, ans: &str) {
		// an answer longer than anything the unchanged crate produces is cut (and thereby differs
		// from the model's answer): the output files stay bounded whatever the code under test does
		let cut;
		let ans = if ans.len() > crate::modeled::VAL_TEXT_CAP {
			let mut e = 200;
			while !ans.is_char_boundary(e) {
				e -= 1;
			}
			cut = format!("{} ...answer of {} bytes cut", &ans[..e], ans.len());
			&cut[..]
		} else {
			ans
		};
		writeln!(self.req, "{}", req).unwrap();
		writeln!(self.ans, "{}", ans).unwrap();
		writeln!(self.meta, "{}\t{}", stream, ty_name).unwrap();
		*self.counts.entry(format!("stream:{}", stream)).or_insert(0) += 1;
		let kind = if ans.starts_with("ok") {
			"ok"
		} else if ans == "err" || ans.starts_with("err ") {
			"err"
		} else if ans == "panic" {
			"panic"
		} else {
			"bytes"
		};
		*self.counts.entry(format!("answer:{}:{}", stream, kind)).or_insert(0) += 1;
		self.lines += 1;
	}
	pub fn oracle_fail(&mut self, property: &str, what: String) {
		self.oracle_failures.push(format!("{}\t{}", property, what));
	}
	pub fn count(&mut self, key: &str, n: u64) {
		*self.counts.entry(key.to_string()).or_insert(0) += n;
	}
}

fn main() {
	let args: Vec<String> = std::env::args().collect();
	let mut streams = String::from("compact");
	let mut seed = 1u64;
	let mut out = String::from("/tmp");
	let mut thorough = false;
	let mut i = 1;
	while i < args.len() {
		match args[i].as_str() {
			"--streams" => {
				streams = args[i + 1].clone();
				i += 1
			},
			"--seed" => {
				seed = args[i + 1].parse().expect("seed");
				i += 1
			},
			"--out" => {
				out = args[i + 1].clone();
				i += 1
			},
			"--tier" => {
				thorough = args[i + 1] == "thorough";
				i += 1
			},
			other => panic!("unknown argument {}", other),
		}
		i += 1;
	}
	std::fs::create_dir_all(&out).unwrap();
	let mk = |n: &str| BufWriter::new(File::create(format!("{}/{}", out, n)).unwrap());
	let mut ctx = Ctx {
		seed,
		tier_thorough: thorough,
		req: mk("req.txt"),
		ans: mk("rust.txt"),
		meta: mk("meta.txt"),
		oracle_failures: vec![],
		counts: BTreeMap::new(),
		lines: 0,
		pool: vec![],
		current_path: format!("{}/current.txt", out),
	};
	// panics inside the crate are outcomes, not noise
	std::panic::set_hook(Box::new(|_| {}));
	for s in streams.split(',') {
		streams::run_stream(&mut ctx, s);
	}
	ctx.req.flush().unwrap();
	ctx.ans.flush().unwrap();
	ctx.meta.flush().unwrap();
	let mut o = mk("oracle.txt");
	for f in &ctx.oracle_failures {
		writeln!(o, "{}", f).unwrap();
	}
	let mut st = mk("stats.txt");
	writeln!(st, "lines\t{}", ctx.lines).unwrap();
	writeln!(st, "endian\t{}", if cfg!(target_endian = "little") { "little" } else { "big" }).unwrap();
	for (k, v) in &ctx.counts {
		writeln!(st, "{}\t{}", k, v).unwrap();
	}
}
