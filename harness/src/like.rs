//! C16: the crate's `EncodeLike` table, observed by compile-time probes, against the model's
//! decision procedure; and for declared pairs, values of `A` decoded as `B`.

use crate::derived::{Mixed, Named, TransCompact, TransEncodedAs, Transparent, TwinU32};
use crate::modeled::{hex_or_dash, val_string, Modeled, G};
use crate::Ctx;
use core::marker::PhantomData;
use parity_scale_codec::{Compact, CompactRef, Decode, Encode, EncodeLike};
use std::borrow::Cow;
use std::collections::{BTreeMap, BTreeSet, BinaryHeap, LinkedList, VecDeque};
use std::rc::Rc;
use std::sync::Arc;
use std::time::Duration;

/// An input that cannot report its remaining length (exists in every feature configuration).
struct Unk<'a> {
	data: &'a [u8],
	pos: usize,
}
impl parity_scale_codec::Input for Unk<'_> {
	fn remaining_len(&mut self) -> Result<Option<usize>, parity_scale_codec::Error> {
		Ok(None)
	}
	fn read(&mut self, into: &mut [u8]) -> Result<(), parity_scale_codec::Error> {
		if into.len() > self.data.len() - self.pos {
			return Err("eof".into());
		}
		into.copy_from_slice(&self.data[self.pos..self.pos + into.len()]);
		self.pos += into.len();
		Ok(())
	}
}

pub struct Probe2<A, B>(PhantomData<(A, B)>);
pub trait Fallback2 {
	const LIKE: bool = false;
}
impl<A, B> Fallback2 for Probe2<A, B> {}
impl<A: EncodeLike<B>, B: Encode> Probe2<A, B> {
	pub const LIKE: bool = true;
}

/// Descriptor for types that can be encoded but not generated/decoded (references, slices, …).
pub trait Desc {
	fn desc() -> String;
}
macro_rules! desc_modeled { ($($t:ty),* $(,)?) => { $( impl Desc for $t { fn desc() -> String { <$t as Modeled>::ty(2) } } )* } }
desc_modeled!(u8, u32, u64, bool, (), Compact<u32>, Option<u32>, Result<u32, u8>, [u32; 2], (u32,), (u32, u8), Vec<u32>, Vec<u8>,
	VecDeque<u32>, LinkedList<u32>, BinaryHeap<u32>, BTreeSet<u32>, BTreeMap<u32, u8>, Vec<(u32, u8)>, Vec<(u32,)>, String,
	Duration, TwinU32, Box<u32>, Rc<u32>, Arc<u32>, Vec<Box<u32>>, VecDeque<Arc<u32>>, Option<Box<u32>>, [Box<u32>; 2],
	Box<TwinU32>, Cow<'static, u32>, Vec<u64>, Option<u64>);
#[cfg(feature = "bytes-f")]
desc_modeled!(bytes::Bytes);
impl<T: Desc> Desc for &T {
	fn desc() -> String {
		T::desc()
	}
}
impl<T: Desc> Desc for &mut T {
	fn desc() -> String {
		T::desc()
	}
}
impl<T: Desc> Desc for &[T] {
	fn desc() -> String {
		format!("vec {} {}", core::mem::size_of::<T>(), T::desc())
	}
}
impl Desc for &str {
	fn desc() -> String {
		"str".into()
	}
}
impl Desc for CompactRef<'_, u32> {
	fn desc() -> String {
		"c 4".into()
	}
}
impl Desc for (&u32,) {
	fn desc() -> String {
		"tup 1 u32".into()
	}
}
impl Desc for (Box<u32>, &u8) {
	fn desc() -> String {
		"tup 2 box 4 u32 u8".into()
	}
}
impl Desc for Option<&u32> {
	fn desc() -> String {
		"opt u32".into()
	}
}
impl Desc for Result<&u32, Box<u8>> {
	fn desc() -> String {
		"res u32 box 1 u8".into()
	}
}
impl Desc for parity_scale_codec::Ref<'_, u32, u32> {
	fn desc() -> String {
		"u32".into()
	}
}
impl Desc for parity_scale_codec::Ref<'_, Box<u32>, u32> {
	fn desc() -> String {
		"box 4 u32".into()
	}
}

fn like_cell<A: Desc, B: Desc>(ctx: &mut Ctx, a: &'static str, b: &'static str, declared: bool) {
	ctx.count("like:pairs-probed", 1);
	if declared {
		ctx.count("like:pairs-declared", 1);
		let name = format!("{} : EncodeLike<{}>", a, b);
		ctx.emit("like", &name, &format!("like {} {}", A::desc(), B::desc()), "yes");
	}
}

macro_rules! like_matrix {
	($ctx:expr; $($t:ty),* $(,)?) => { like_matrix!(@rows $ctx; [$($t),*]; $($t),*) };
	(@rows $ctx:expr; $all:tt; $($a:ty),*) => { $( like_matrix!(@row $ctx; $a; $all); )* };
	(@row $ctx:expr; $a:ty; [$($b:ty),*]) => { $( like_cell::<$a, $b>($ctx, stringify!($a), stringify!($b), <Probe2<$a, $b>>::LIKE); )* };
}

/// For a declared pair: values of `A` (built from an owned, generated value by `view`) encode to
/// bytes that decode as `B`; re-encoding the decoded `B` gives the same bytes (unless `B`
/// normalises: maps, sets, heaps).
fn like_values<O: Modeled + Encode + 'static, A: Encode, B: Modeled + Encode + Decode>(
	ctx: &mut Ctx,
	label: &'static str,
	declared: bool,
	normalising: bool,
	view: impl Fn(&'static O) -> A,
) {
	if !declared {
		ctx.count("like:value-pairs-not-declared", 1);
		ctx.count(&format!("like:not-declared:{}", label), 1);
		return;
	}
	let n = if ctx.tier_thorough { 300 } else { 40 };
	let mut g = G::new(ctx.seed ^ 0x11CE ^ label.len() as u64, 12);
	for _ in 0..n {
		g.budget = 12;
		let o: &'static O = Box::leak(Box::new(O::gen(&mut g)));
		let a = view(o);
		let bytes = a.encode();
		// the value-level request the model answers: the bytes decoded as B
		let (ans, dv) = match std::panic::catch_unwind(std::panic::AssertUnwindSafe(|| {
			let mut s = &bytes[..];
			(B::decode(&mut s), s.len())
		})) {
			Ok((Ok(v), rem)) => (format!("ok {} {}", val_string(&v, true), rem), Some((v, rem))),
			Ok((Err(_), _)) => ("err".to_string(), None),
			Err(_) => ("panic".to_string(), None),
		};
		ctx.emit("like-val", label, &format!("dec {} {}", B::ty(bytes.len() + 1), hex_or_dash(&bytes)), &ans);
		// the same bytes as B through a reader of unknown length and under a generous depth limit
		// (every catalogue pair nests at most 4 deep): still the same value
		if let Some((b, _)) = &dv {
			let want = val_string(b, true);
			let r = std::panic::catch_unwind(std::panic::AssertUnwindSafe(|| {
				let mut io = Unk { data: &bytes[..], pos: 0 };
				let a = B::decode(&mut io).ok().map(|x| val_string(&x, true));
				let l = {
					use parity_scale_codec::DecodeLimit;
					B::decode_with_depth_limit(8, &mut &bytes[..]).ok().map(|x| val_string(&x, true))
				};
				(a, l)
			}));
			match r {
				Ok((Some(a), Some(l))) if a == want && l == want => {},
				Ok((a, l)) => ctx.oracle_fail("C16", format!("{}: bytes {} decode as the target from a slice but from a reader ok={} / under a depth limit of 8 ok={}", label, &hex_or_dash(&bytes)[..hex_or_dash(&bytes).len().min(40)], a.is_some(), l.is_some())),
				Err(_) => ctx.oracle_fail("C16", format!("{}: decoding the alias bytes from a reader / under a depth limit panicked", label)),
			}
		}
		// ... and out of a shared buffer (`decode_from_bytes`, zero-copy for `Bytes` fields)
		#[cfg(feature = "bytes-f")]
		if let Some((b, 0)) = &dv {
			let want = val_string(b, true);
			let r = std::panic::catch_unwind(std::panic::AssertUnwindSafe(|| {
				parity_scale_codec::decode_from_bytes::<B>(bytes::Bytes::copy_from_slice(&bytes)).ok().map(|x| val_string(&x, true))
			}));
			if !matches!(&r, Ok(Some(x)) if *x == want) {
				ctx.oracle_fail("C16", format!("{}: bytes {} decode as the target from a slice but not (or differently) with decode_from_bytes", label, &hex_or_dash(&bytes)[..hex_or_dash(&bytes).len().min(60)]));
			}
		}
		// the alias form through `using_encoded` (what hashers and key builders see) and `encoded_size`
		match std::panic::catch_unwind(std::panic::AssertUnwindSafe(|| (a.using_encoded(|b| b.to_vec()), a.encoded_size()))) {
			Ok((u, n)) if u == bytes && n == bytes.len() => {},
			other => ctx.oracle_fail("C16", format!("{}: using_encoded / encoded_size of the alias form give {:?}, encode gives {} bytes", label, other.ok().map(|(u, n)| (u.len(), n)), bytes.len())),
		}
		// oracle (C16)
		match dv {
			Some((b, 0)) => {
				if !normalising && b.encode() != bytes {
					ctx.oracle_fail("C16", format!("{}: decoded value re-encodes to {} but the source encodes to {}", label, hex_or_dash(&b.encode()), hex_or_dash(&bytes)));
				}
				if o.encode() != bytes {
					ctx.oracle_fail("C16", format!("{}: the alias form encodes to {} but the value it stands for to {}", label, hex_or_dash(&bytes), hex_or_dash(&o.encode())));
				}
			},
			_ => ctx.oracle_fail("C16", format!("{}: bytes {} of the source do not decode (completely) as the target: {}", label, hex_or_dash(&bytes), &ans[..ans.len().min(60)])),
		}
	}
}

macro_rules! like_case {
	($ctx:expr; $o:ty, $a:ty => $b:ty, $norm:expr, $view:expr) => {
		like_values::<$o, $a, $b>($ctx, concat!(stringify!($a), " as ", stringify!($b)), <Probe2<$a, $b>>::LIKE, $norm, $view);
	};
}

pub fn like_stream(ctx: &mut Ctx) {
	like_matrix!(ctx;
		u8, u32, u64, bool, (), &'static u32, &'static &'static u32, &'static mut u32, Box<u32>, Rc<u32>, Arc<u32>, Cow<'static, u32>,
		Option<u32>, Option<&'static u32>, Option<Box<u32>>, Option<u64>,
		Result<u32, u8>, Result<&'static u32, Box<u8>>, [u32; 2], [Box<u32>; 2], (u32,), (&'static u32,), (u32, u8), (Box<u32>, &'static u8),
		Vec<u32>, Vec<Box<u32>>, Vec<u64>, &'static [u32], &'static [&'static u32], VecDeque<u32>, VecDeque<Arc<u32>>,
		LinkedList<u32>, BinaryHeap<u32>, BTreeSet<u32>, &'static [(u32,)], Vec<(u32,)>, BTreeMap<u32, u8>, &'static [(u32, u8)], Vec<(u32, u8)>,
		String, &'static str, Vec<u8>, &'static [u8], Duration, TwinU32, &'static TwinU32, Box<TwinU32>,
		parity_scale_codec::Ref<'static, u32, u32>, parity_scale_codec::Ref<'static, Box<u32>, u32>,
	);
	#[cfg(feature = "bytes-f")]
	{
		like_matrix!(ctx; bytes::Bytes, Vec<u8>, &'static [u8], String, &'static str, Vec<u32>);
	}
	// value level
	like_case!(ctx; u32, &'static u32 => u32, false, |o| o);
	like_case!(ctx; u32, Box<u32> => u32, false, |o| Box::new(*o));
	like_case!(ctx; u32, u32 => Box<u32>, false, |o| *o);
	like_case!(ctx; u32, Rc<u32> => u32, false, |o| Rc::new(*o));
	like_case!(ctx; u32, u32 => Arc<u32>, false, |o| *o);
	like_case!(ctx; u32, Cow<'static, u32> => u32, false, |o| Cow::Borrowed(o));
	like_case!(ctx; String, &'static str => String, false, |o| o.as_str());
	like_case!(ctx; Vec<u32>, &'static [u32] => Vec<u32>, false, |o| &o[..]);
	like_case!(ctx; Vec<u32>, Vec<u32> => VecDeque<u32>, false, |o| o.clone());
	like_case!(ctx; Vec<u32>, VecDeque<u32> => Vec<u32>, false, |o| o.iter().cloned().collect::<VecDeque<u32>>());
	like_case!(ctx; Vec<u32>, &'static [u32] => VecDeque<u32>, false, |o| &o[..]);
	like_case!(ctx; Vec<u32>, Vec<Box<u32>> => Vec<u32>, false, |o| o.iter().map(|x| Box::new(*x)).collect::<Vec<_>>());
	like_case!(ctx; Vec<u32>, Vec<&'static u32> => Vec<u32>, false, |o| o.iter().collect::<Vec<_>>());
	// pointer-sized holders around 8-byte (and other) primitives inside slice-like containers
	like_case!(ctx; Vec<u64>, Vec<Box<u64>> => Vec<u64>, false, |o| o.iter().map(|x| Box::new(*x)).collect::<Vec<_>>());
	like_case!(ctx; Vec<u64>, Vec<&'static u64> => Vec<u64>, false, |o| o.iter().collect::<Vec<_>>());
	like_case!(ctx; Vec<i64>, VecDeque<Rc<i64>> => Vec<i64>, false, |o| o.iter().map(|x| Rc::new(*x)).collect::<VecDeque<_>>());
	like_case!(ctx; Vec<f64>, Vec<Arc<f64>> => Vec<f64>, false, |o| o.iter().map(|x| Arc::new(*x)).collect::<Vec<_>>());
	like_case!(ctx; [i64; 3], [Box<i64>; 3] => [i64; 3], false, |o| [Box::new(o[0]), Box::new(o[1]), Box::new(o[2])]);
	like_case!(ctx; [u64; 2], [&'static u64; 2] => [u64; 2], false, |o| [&o[0], &o[1]]);
	like_case!(ctx; Vec<u64>, Vec<parity_scale_codec::Ref<'static, u64, u64>> => Vec<u64>, false, |o| o.iter().map(parity_scale_codec::Ref::from).collect::<Vec<_>>());
	like_case!(ctx; Vec<u8>, Vec<Box<u8>> => Vec<u8>, false, |o| o.iter().map(|x| Box::new(*x)).collect::<Vec<_>>());
	like_case!(ctx; Vec<u128>, Vec<&'static u128> => Vec<u128>, false, |o| o.iter().collect::<Vec<_>>());
	like_case!(ctx; Vec<u16>, VecDeque<Arc<u16>> => VecDeque<u16>, false, |o| o.iter().map(|x| Arc::new(*x)).collect::<VecDeque<_>>());
	// derived types and their holders (decoded through the derived `decode_into`)
	like_case!(ctx; TransCompact, TransCompact => Box<TransCompact>, false, |o| o.clone());
	like_case!(ctx; TransCompact, &'static TransCompact => Rc<TransCompact>, false, |o| o);
	like_case!(ctx; TransCompact, Box<TransCompact> => Arc<TransCompact>, false, |o| Box::new(o.clone()));
	like_case!(ctx; TransEncodedAs, TransEncodedAs => Box<TransEncodedAs>, false, |o| o.clone());
	like_case!(ctx; [TransCompact; 2], [&'static TransCompact; 2] => [TransCompact; 2], false, |o| [&o[0], &o[1]]);
	like_case!(ctx; Vec<TransCompact>, &'static [TransCompact] => Vec<Box<TransCompact>>, false, |o| &o[..]);
	like_case!(ctx; Mixed, &'static Mixed => Box<Mixed>, false, |o| o);
	like_case!(ctx; Named, Named => Arc<Named>, false, |o| o.clone());
	like_case!(ctx; Transparent, &'static Transparent => Box<Transparent>, false, |o| o);
	// elements that are zero-sized in memory but not on the wire, in arrays and behind holders
	like_case!(ctx; [crate::derived::Marker; 3], [Box<crate::derived::Marker>; 3] => [crate::derived::Marker; 3], false, |o| core::array::from_fn(|i| Box::new(o[i])));
	like_case!(ctx; ([crate::derived::Marker; 2], u8), ([&'static crate::derived::Marker; 2], &'static u8) => ([crate::derived::Marker; 2], u8), false, |o| ([&o.0[0], &o.0[1]], &o.1));
	like_case!(ctx; Vec<crate::derived::Marker>, &'static [crate::derived::Marker] => Vec<Box<crate::derived::Marker>>, false, |o| &o[..]);
	like_case!(ctx; [crate::derived::Marker; 2], [crate::derived::Marker; 2] => Box<[crate::derived::Marker; 2]>, false, |o| *o);
	// many elements decoded as shared holders (in place, one after the other)
	like_case!(ctx; [u32; 40], [u32; 40] => [Rc<u32>; 40], false, |o| *o);
	like_case!(ctx; [u16; 33], [&'static u16; 33] => [Arc<u16>; 33], false, |o| core::array::from_fn(|i| &o[i]));
	like_case!(ctx; [u8; 40], [Box<u8>; 40] => [Rc<u8>; 40], false, |o| core::array::from_fn(|i| Box::new(o[i])));
	// a long &str with multi-byte characters across 16 KiB offsets decodes as String from every input
	{
		let mut s = "a".repeat(16383);
		s.push_str("é€𝄞");
		s.push_str(&"b".repeat(16384 - 9 + 2));
		s.push_str("𝄞€é tail");
		let bytes = s.as_str().encode();
		let from_slice = String::decode(&mut &bytes[..]).ok();
		let from_reader = String::decode(&mut Unk { data: &bytes[..], pos: 0 }).ok();
		let tuple_bytes = (s.as_str(), 7u8).encode();
		let as_tuple = <(String, u8)>::decode(&mut Unk { data: &tuple_bytes[..], pos: 0 }).ok();
		#[cfg(feature = "codec-std")]
		{
			let io = String::decode(&mut parity_scale_codec::IoReader(std::io::Cursor::new(&bytes[..]))).ok();
			if io.as_deref() != Some(&s[..]) {
				ctx.oracle_fail("C16", format!("&str ({} bytes, multi-byte characters across 16 KiB offsets) as String from IoReader: ok={}", s.len(), io.is_some()));
			}
		}
		if from_slice.as_deref() != Some(&s[..]) || from_reader.as_deref() != Some(&s[..]) || as_tuple.as_ref().map(|t| (&t.0[..], t.1)) != Some((&s[..], 7)) {
			ctx.oracle_fail("C16", format!("&str ({} bytes, multi-byte characters across 16 KiB offsets) as String: from a slice ok={} from a reader ok={} as a tuple field from a reader ok={}", s.len(), from_slice.is_some(), from_reader.is_some(), as_tuple.is_some()));
		}
		ctx.count("like:long-str", 1);
	}
	like_case!(ctx; Option<u32>, Option<&'static u32> => Option<u32>, false, |o| o.as_ref());
	like_case!(ctx; Option<u32>, Option<Box<u32>> => Option<u32>, false, |o| o.map(Box::new));
	like_case!(ctx; Result<u32, u8>, Result<&'static u32, &'static u8> => Result<u32, u8>, false, |o| o.as_ref());
	like_case!(ctx; [u32; 2], [&'static u32; 2] => [u32; 2], false, |o| [&o[0], &o[1]]);
	like_case!(ctx; (u32, u8), (&'static u32, Box<u8>) => (u32, u8), false, |o| (&o.0, Box::new(o.1)));
	like_case!(ctx; (u32,), (&'static u32,) => (u32,), false, |o| (&o.0,));
	like_case!(ctx; Vec<(u32, u8)>, &'static [(u32, u8)] => BTreeMap<u32, u8>, true, |o| &o[..]);
	like_case!(ctx; BTreeMap<u32, u8>, BTreeMap<u32, u8> => BTreeMap<u32, u8>, false, |o| o.clone());
	like_case!(ctx; Vec<(u32,)>, &'static [(u32,)] => BTreeSet<u32>, true, |o| &o[..]);
	like_case!(ctx; Vec<(u32,)>, &'static [(u32,)] => LinkedList<u32>, false, |o| &o[..]);
	like_case!(ctx; Vec<(u32,)>, &'static [(u32,)] => BinaryHeap<u32>, true, |o| &o[..]);
	like_case!(ctx; TwinU32, &'static TwinU32 => TwinU32, false, |o| o);
	like_case!(ctx; u32, parity_scale_codec::Ref<'static, u32, u32> => u32, false, |o| parity_scale_codec::Ref::from(o));
	// compact references stand for the compact value: `CompactRef(&x)` encodes as `Compact(x)`
	// (every width; and through `CompactAs` for a newtype). These impls overflow rustc's trait
	// solver inside the probe matrix, so they are exercised at value level only.
	like_values::<Compact<u8>, CompactRef<'static, u8>, Compact<u8>>(ctx, "CompactRef<u8> as Compact<u8>", true, false, |o| CompactRef(&o.0));
	like_values::<Compact<u16>, CompactRef<'static, u16>, Compact<u16>>(ctx, "CompactRef<u16> as Compact<u16>", true, false, |o| CompactRef(&o.0));
	like_values::<Compact<u32>, CompactRef<'static, u32>, Compact<u32>>(ctx, "CompactRef<u32> as Compact<u32>", true, false, |o| CompactRef(&o.0));
	like_values::<Compact<u64>, CompactRef<'static, u64>, Compact<u64>>(ctx, "CompactRef<u64> as Compact<u64>", true, false, |o| CompactRef(&o.0));
	like_values::<Compact<u128>, CompactRef<'static, u128>, Compact<u128>>(ctx, "CompactRef<u128> as Compact<u128>", true, false, |o| CompactRef(&o.0));
	like_values::<Compact<crate::derived::Wrapped>, CompactRef<'static, crate::derived::Wrapped>, Compact<crate::derived::Wrapped>>(
		ctx, "CompactRef<Wrapped> as Compact<Wrapped>", true, false, |o| CompactRef(&o.0));
	like_values::<Compact<u32>, &'static Compact<u32>, Compact<u32>>(ctx, "&Compact<u32> as Compact<u32>", true, false, |o| o);
	like_values::<Compact<u64>, Box<Compact<u64>>, Compact<u64>>(ctx, "Box<Compact<u64>> as Compact<u64>", true, false, |o| Box::new(Compact(o.0)));
	like_values::<Vec<Compact<u32>>, Vec<&'static Compact<u32>>, Vec<Compact<u32>>>(ctx, "Vec<&Compact<u32>> as Vec<Compact<u32>>", true, false, |o| o.iter().collect::<Vec<_>>());
	// elements that occupy memory but encode to nothing (more items than bytes follow the prefix)
	{
		use crate::derived::AllSkipped;
		like_case!(ctx; Vec<AllSkipped>, &'static [AllSkipped] => Vec<AllSkipped>, false, |o| &o[..]);
		like_case!(ctx; Vec<AllSkipped>, Vec<&'static AllSkipped> => Vec<AllSkipped>, false, |o| o.iter().collect::<Vec<_>>());
		like_case!(ctx; Vec<AllSkipped>, VecDeque<AllSkipped> => Vec<AllSkipped>, false, |o| o.iter().cloned().collect::<VecDeque<_>>());
		like_case!(ctx; Vec<AllSkipped>, Vec<AllSkipped> => VecDeque<AllSkipped>, false, |o| o.clone());
		like_case!(ctx; (Vec<AllSkipped>, u8), (&'static [AllSkipped], &'static u8) => (Vec<AllSkipped>, u8), false, |o| (&o.0[..], &o.1));
	}
	// floating-point elements (the generator produces signalling and quiet NaNs, infinities, -0.0):
	// element-by-element alias forms against the bulk-encoded plain sequence
	like_case!(ctx; Vec<f32>, Vec<&'static f32> => Vec<f32>, false, |o| o.iter().collect::<Vec<_>>());
	like_case!(ctx; Vec<f64>, VecDeque<&'static f64> => Vec<f64>, false, |o| o.iter().collect::<VecDeque<_>>());
	like_case!(ctx; [f64; 3], [Box<f64>; 3] => [f64; 3], false, |o| [Box::new(o[0]), Box::new(o[1]), Box::new(o[2])]);
	like_case!(ctx; [f32; 4], [&'static f32; 4] => [f32; 4], false, |o| [&o[0], &o[1], &o[2], &o[3]]);
	like_case!(ctx; ([u8; 64], [u8; 32], [u8; 32], Option<u32>), (&'static [u8; 64], Box<[u8; 32]>, &'static [u8; 32], &'static Option<u32>) => ([u8; 64], [u8; 32], [u8; 32], Option<u32>), false, |o| (&o.0, Box::new(o.1), &o.2, &o.3));
	like_case!(ctx; ([u8; 64], [u16; 32], Compact<u32>, u8), (&'static [u8; 64], &'static [u16; 32], &'static Compact<u32>, &'static u8) => ([u8; 64], [u16; 32], Compact<u32>, u8), false, |o| (&o.0, &o.1, &o.2, &o.3));
	like_case!(ctx; ([u8; 127], u8, Result<u8, u8>), Box<([u8; 127], u8, Result<u8, u8>)> => ([u8; 127], u8, Result<u8, u8>), false, |o| Box::new(o.clone()));
	like_case!(ctx; f32, &'static f32 => f32, false, |o| o);
	like_case!(ctx; f64, Box<f64> => f64, false, |o| Box::new(*o));
	like_case!(ctx; (f32, f64), (&'static f32, Rc<f64>) => (f32, f64), false, |o| (&o.0, Rc::new(o.1)));
	like_case!(ctx; Option<f32>, Option<&'static f32> => Option<f32>, false, |o| o.as_ref());
	#[cfg(feature = "bytes-f")]
	{
		like_case!(ctx; Vec<u8>, bytes::Bytes => Vec<u8>, false, |o| bytes::Bytes::from(o.clone()));
		like_case!(ctx; Vec<u8>, &'static [u8] => bytes::Bytes, false, |o| &o[..]);
		like_case!(ctx; Vec<u8>, Vec<u8> => bytes::Bytes, false, |o| o.clone());
		// byte strings (often empty ones) FOLLOWED by something, as shared buffers
		like_case!(ctx; (Vec<u8>, u32), (Vec<u8>, u32) => (bytes::Bytes, u32), false, |o| o.clone());
		like_case!(ctx; (Vec<u8>, Vec<u8>), (Vec<u8>, Vec<u8>) => (bytes::Bytes, bytes::Bytes), false, |o| o.clone());
		like_case!(ctx; (Vec<u8>, Vec<u8>), (&'static [u8], &'static Vec<u8>) => (bytes::Bytes, bytes::Bytes), false, |o| (&o.0[..], &o.1));
		like_case!(ctx; Vec<Vec<u8>>, Vec<Vec<u8>> => Vec<bytes::Bytes>, false, |o| o.clone());
		like_case!(ctx; [Vec<u8>; 3], [Vec<u8>; 3] => [bytes::Bytes; 3], false, |o| o.clone());
		like_case!(ctx; [Vec<u8>; 3], [&'static [u8]; 3] => [bytes::Bytes; 3], false, |o| [&o[0][..], &o[1][..], &o[2][..]]);
	}
}
