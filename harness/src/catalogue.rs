//! The catalogue of concrete instantiations every type-directed stream runs over.

use crate::derived::*;
use crate::streams::{run_type, TypeOpts};
use crate::Ctx;
use core::marker::PhantomData;
use core::num::*;
use core::ops::{Range, RangeInclusive};
use core::time::Duration;
use parity_scale_codec::{Compact, OptionBool};
use std::borrow::Cow;
use std::collections::{BTreeMap, BTreeSet, BinaryHeap, LinkedList, VecDeque};
use std::rc::Rc;
use std::sync::Arc;

#[cfg(feature = "bitvec-f")]
use bitvec::prelude::*;

macro_rules! entry {
	($ctx:expr, $stream:expr, $filter:expr, $t:ty, zw=$zw:expr, small=$small:expr, budget=$b:expr) => {{
		let name = stringify!($t);
		if $filter.map_or(true, |f: &str| name.contains(f)) {
			let o = TypeOpts { zero_width_elems: $zw, small_alphabet: $small, budget: $b };
			if $stream == "mel" {
				#[allow(unused_imports)]
				use crate::probe::{Fallback, Probe};
				crate::streams::run_mel_type::<$t>($ctx, name, &o, <Probe<$t>>::mel(), <Probe<$t>>::IS_CEL);
			} else if $stream == "mem" {
				crate::streams::run_mem_type::<$t>($ctx, name, &o);
			} else {
				run_type::<$t>($ctx, $stream, name, &o);
			}
		}
	}};
}

macro_rules! nomem { ($ctx:expr, $s:expr, $f:expr; $($t:ty),* $(,)?) => { $( {
	let name = stringify!($t);
	if $f.map_or(true, |f: &str| name.contains(f)) {
		let o = TypeOpts { zero_width_elems: false, small_alphabet: false, budget: 24 };
		if $s == "mel" {
			#[allow(unused_imports)]
			use crate::probe::{Fallback, Probe};
			crate::streams::run_mel_type::<$t>($ctx, name, &o, <Probe<$t>>::mel(), <Probe<$t>>::IS_CEL);
		} else {
			run_type::<$t>($ctx, $s, name, &o);
		}
	}
} )* } }
macro_rules! plain { ($ctx:expr, $s:expr, $f:expr; $($t:ty),* $(,)?) => { $( entry!($ctx, $s, $f, $t, zw=false, small=false, budget=24); )* } }
macro_rules! small { ($ctx:expr, $s:expr, $f:expr; $($t:ty),* $(,)?) => { $( entry!($ctx, $s, $f, $t, zw=false, small=true, budget=24); )* } }
macro_rules! zerow { ($ctx:expr, $s:expr, $f:expr; $($t:ty),* $(,)?) => { $( entry!($ctx, $s, $f, $t, zw=true, small=false, budget=24); )* } }


/// Element type x container cross product: every interesting element kind under every container
/// with its own decode path (bulk / item-wise / from_iter / in-place array / holder).
macro_rules! cross { ($ctx:expr, $s:expr, $f:expr; $($e:ty),* $(,)?) => { $(
	plain!($ctx, $s, $f; Vec<$e>, VecDeque<$e>, LinkedList<$e>, [$e; 3], Box<[$e; 2]>, Option<Vec<$e>>, (Vec<$e>, u8), Vec<Box<$e>>, Rc<$e>, [Arc<$e>; 2]);
)* } }
macro_rules! cross_zw { ($ctx:expr, $s:expr, $f:expr; $($e:ty),* $(,)?) => { $(
	zerow!($ctx, $s, $f; Vec<$e>, VecDeque<$e>, LinkedList<$e>, [$e; 3], Box<[$e; 2]>, Option<Vec<$e>>, (Vec<$e>, u8));
)* } }
macro_rules! cross_ord { ($ctx:expr, $s:expr, $f:expr; $($e:ty),* $(,)?) => { $(
	plain!($ctx, $s, $f; BinaryHeap<$e>, BTreeSet<$e>, BTreeMap<$e, u8>, BTreeMap<u8, $e>);
)* } }

#[path = "generated.rs"]
pub mod generated;

include!("randtypes.rs");

/// Declared maximum vs actual length for types the model has no descriptor for.
fn mel_oracle_only(ctx: &mut Ctx) {
	use parity_scale_codec::{Encode, MaxEncodedLen};
	let mut r = crate::rng::Rng::new(ctx.seed ^ 0x3E17);
	for _ in 0..200 {
		let n = r.below(33) as usize;
		let name = BoundedBytes::<L32>((0..n).map(|_| r.below(256) as u8).collect(), PhantomData);
		let a = NamedBounded::<L32> { id: r.next() as u32, name: name.clone() };
		let b = if r.chance(1, 2) { MessageBounded::<L32>::Text(r.next() as u32, name) } else { MessageBounded::<L32>::Tag(7) };
		let (la, ma) = (a.encode().len(), NamedBounded::<L32>::max_encoded_len());
		let (lb, mb) = (b.encode().len(), MessageBounded::<L32>::max_encoded_len());
		if la > ma {
			ctx.oracle_fail("C13", format!("NamedBounded<L32> (mel_bound(skip_type_params)): max_encoded_len() = {} but a value encodes to {} bytes", ma, la));
		}
		if lb > mb {
			ctx.oracle_fail("C13", format!("MessageBounded<L32> (mel_bound(skip_type_params)): max_encoded_len() = {} but a value encodes to {} bytes", mb, lb));
		}
		ctx.count("mel:oracle-only-values", 2);
	}
}

pub fn run_all(ctx: &mut Ctx, stream: &str) {
	if stream == "mel" {
		mel_oracle_only(ctx);
	}
	let filter_owned = std::env::var("VERIF_TYPE_FILTER").ok();
	let f = filter_owned.as_deref();
	if std::env::var("VERIF_ONLY_DERIVED").is_ok() {
		// C05: generated definitions plus the hand-written derived types
		generated::run_generated(ctx, stream, f);
		plain!(ctx, stream, f; TwinU32, TwinU8, Named, Skipper, CompactFields, UsesCompactAs, Mixed, Tree, Chain, Transparent,
			Generic<u8, u16>, Generic<String, TwinU32>, Vec<Mixed>, Option<Named>, Box<Chain>, Vec<Skipper>, BTreeMap<u8, Mixed>,
			MelEnum, MelGen<u32>, MelGen<u64>, MelGen<u8>, Option<MelEnum>, [MelGen<u16>; 2], (MelEnum, CompactFields), Box<CompactFields>,
			Compact<Wrapped>, Box<Transparent>, [Transparent; 2], UnitStruct,
			TransTagged, Box<TransTagged>, [TransTagged; 2], TransTaggedAs, Box<TransTaggedAs>, TransSkipPayload, Box<TransSkipPayload>, [TransSkipPayload; 2],
			GenEnum<u16, NotCodec, u32>, GenEnum<Vec<u8>, NotCodec, u64>, GenEnum<TwinU32, u8, u8>, Vec<GenEnum<bool, NotCodec, u16>>,
			GenStruct<u32, NotCodec>, GenStruct<String, u8>,
			TransCompact, Box<TransCompact>, [TransCompact; 2], Rc<TransCompact>, Vec<Box<[TransCompact; 2]>>, Arc<TransCompact>,
			TransEncodedAs, Box<TransEncodedAs>, [TransEncodedAs; 3], Option<Box<(u8, TransEncodedAs)>>,
			TransSkip, Box<TransSkip>, [TransSkip; 2],
			TransMarker, Box<TransMarker>, [TransMarker; 2], Rc<TransMarker>, Vec<Box<TransMarker>>, (Box<TransMarker>, u8),
			TransMarkerVec, Box<TransMarkerVec>, Arc<TransMarkerVec>, [TransMarkerVec; 2],
			MelDup, Vec<MelDup>, Option<MelDup>, ConstDisc, Vec<ConstDisc>, (ConstDisc, u8), [ConstDisc; 3], MidSkip, Box<MidSkip>, Vec<MidSkip>,
			SkipOrders, Vec<SkipOrders>, Option<SkipOrders>,
			OneAndSkipped, Vec<OneAndSkipped>, [OneAndSkipped; 3], VecDeque<OneAndSkipped>, Box<OneAndSkipped>, OneAligned, Vec<OneAligned>, [OneAligned; 2],
			MixedDisc, Vec<MixedDisc>, (MixedDisc,), Box<MixedDisc>, [MixedDisc; 4], BigGen<u8>, BigGen<u64>, Vec<BigGen<u8>>, Option<BigGen<u64>>,
			TrailingComma, Vec<TrailingComma>, TrailingCommaE, Option<TrailingCommaE>, TailEmpty, TailEmptyE, IdxEnum, LitIndex, Vec<LitIndex>,
			Wide17, Vec<Wide17>, WideVariant, Option<WideVariant>);
		nomem!(ctx, stream, f; NonPathAs, Vec<NonPathAs>, SingleNonPathAs, Box<SingleNonPathAs>);
		return;
	}
	small!(ctx, stream, f; (), bool, OptionBool, u8, i8, Option<bool>, Result<bool, bool>, Compact<u8>, Compact<u16>,
		Option<Option<bool>>, UnitStruct, PhantomData<u32>, Compact<()>);
	plain!(ctx, stream, f;
		u16, u32, u64, u128, i16, i32, i64, i128, f32, f64,
		NonZeroU8, NonZeroU16, NonZeroU32, NonZeroU64, NonZeroU128,
		NonZeroI8, NonZeroI16, NonZeroI32, NonZeroI64, NonZeroI128,
		Compact<u32>, Compact<u64>, Compact<u128>, Compact<Wrapped>,
		Option<u32>, Option<Vec<u8>>, Result<u8, String>, Result<Vec<u16>, Option<i64>>,
		(u8,), (u16, bool), (u8, Vec<u8>, i32), (Compact<u32>, String, Option<u8>, u64),
		(u8, u8, u8, u8, u8, u8, u8, u8, u8, u8, u8, u8, u8, u8, u8, u8, u8, u16),
		[u8; 0], [u8; 1], [u8; 32], [i8; 3], [u16; 4], [i16; 2], [u32; 3], [i32; 2], [u64; 2], [i64; 3],
		[u128; 2], [i128; 1], [f32; 3], [f64; 2], [bool; 3], [Option<u8>; 2], [Vec<u8>; 2], [TwinU32; 3],
		[[u8; 2]; 3], [String; 2],
		Vec<u8>, Vec<i8>, Vec<u16>, Vec<i16>, Vec<u32>, Vec<i32>, Vec<u64>, Vec<i64>, Vec<u128>, Vec<i128>,
		Vec<f32>, Vec<f64>, Vec<bool>, Vec<TwinU32>, Vec<TwinU8>, Vec<Vec<u8>>, Vec<Option<u16>>, Vec<String>,
		Vec<(u8, u16)>, Vec<Vec<Vec<u16>>>, Vec<Compact<u64>>, Vec<[u8; 3]>, Vec<OptionBool>,
		VecDeque<u8>, VecDeque<u32>, VecDeque<i64>, VecDeque<u128>, VecDeque<f64>, VecDeque<TwinU32>, VecDeque<Vec<u8>>, VecDeque<String>,
		LinkedList<u8>, LinkedList<u32>, LinkedList<Vec<u8>>, LinkedList<(u8, bool)>,
		BinaryHeap<u8>, BinaryHeap<u32>, BinaryHeap<i16>, BinaryHeap<(u8, u8)>, BinaryHeap<Vec<u8>>,
		BTreeSet<u8>, BTreeSet<u32>, BTreeSet<i32>, BTreeSet<(u8, i8)>, BTreeSet<Vec<u8>>, BTreeSet<String>, BTreeSet<Option<u8>>,
		BTreeMap<u8, u8>, BTreeMap<u32, Vec<u8>>, BTreeMap<i16, String>, BTreeMap<(u8, u8), bool>, BTreeMap<String, u32>,
		BTreeMap<Vec<u8>, Option<u8>>, BTreeMap<u8, BTreeMap<u8, u8>>,
		String, Vec<String>, Option<String>,
		Box<u32>, Box<Vec<u8>>, Box<[u8; 4]>, Box<[TwinU32; 2]>, Box<(u8, String)>, Rc<u64>, Rc<Vec<u16>>, Arc<i32>, Arc<String>,
		Box<Box<u8>>, Option<Box<u16>>, Vec<Box<u8>>, Box<()>,
		Cow<'static, u32>, Cow<'static, Vec<u8>>, Cow<'static, String>,
		Duration, Option<Duration>, Vec<Duration>,
		Range<u8>, Range<u32>, RangeInclusive<i16>, RangeInclusive<u64>, Range<Compact<u32>>,
		RangeInclusive<Compact<u32>>, Range<Option<NonZeroU16>>, Range<(u8, u32)>, Range<Duration>, RangeInclusive<Duration>, [Range<Duration>; 2], [RangeInclusive<(u8, u32)>; 3],
		Vec<Range<Duration>>, Range<bool>, [Duration; 3], [Range<u16>; 2],
		IdxEnum, [IdxEnum; 3], Vec<IdxEnum>,
		// round 5: primitive tuples without padding whose memory order differs from declaration order;
		// nested-niche elements (1 byte in memory, up to 3 on the wire) in arrays; maps of bare primitives
		// of different widths; fixed-size compound elements of 16 bytes and more; zero-length arrays of
		// fixed-size elements; holders of non-constant-length values; decode_into of compact integers
		(u8, u16, u8), (u16, u32, u16), (u8, u8, u16, u32), (u32, u64, u32), (u8, u16, u8, u32), (u16, u8, u8, u32), (i8, i16, i8), (u64, u128, u64),
		[Option<Option<bool>>; 24], [Option<IdxEnum>; 30], [Option<Option<bool>>; 3], [Result<Option<bool>, ()>; 25],
		BTreeMap<u8, u32>, BTreeMap<u32, u64>, BTreeMap<u64, u8>, BTreeMap<u16, u128>, BTreeMap<i8, i64>,
		Vec<[u32; 4]>, Vec<[u64; 2]>, VecDeque<[u16; 8]>, Vec<[[u16; 4]; 2]>, BinaryHeap<[u64; 2]>, Vec<[bool; 16]>, Vec<[u128; 1]>,
		Arc<Option<u32>>, Arc<Compact<u64>>, Arc<MelEnum>, [Arc<Option<u8>>; 2], (u8, Box<Arc<Compact<u16>>>), Range<Arc<Option<u8>>>, Rc<Option<u16>>, Box<Result<u8, u64>>,
		[Compact<u128>; 2], Box<Compact<u128>>, [Compact<u64>; 2], Rc<Compact<u32>>, [Compact<u16>; 3], Arc<Compact<u8>>, Box<[Compact<u128>; 1]>,
		TailEmpty, Box<TailEmpty>, TailEmptyE, Vec<TailEmptyE>, (u8, TailEmpty),
		Wide17, Vec<Wide17>, WideVariant, Option<WideVariant>, [Wide17; 2],
		// a tuple whose leading elements encode to exactly 128 bytes, followed by a tag byte
		([u8; 64], [u8; 32], [u8; 32], Option<u32>), ([u8; 64], [u16; 32], Compact<u32>, u8), ([u8; 127], u8, Result<u8, u8>),
		TrailingComma, Vec<TrailingComma>, TrailingCommaE, Option<TrailingCommaE>,
		LitIndex, Vec<LitIndex>, [LitIndex; 4], Option<LitIndex>, LinkedList<Range<Duration>>, BTreeMap<u8, RangeInclusive<Duration>>, LinkedList<[u32; 2]>, BTreeMap<u8, Range<u64>>,
		// user-defined wrappers relying on the provided `decode_wrapped` (the model's `wrap`)
		UserWrap<u32>, UserWrap<Vec<u8>>, Vec<UserWrap<u16>>, UserWrap<UserWrap<Box<u8>>>, Box<UserWrap<()>>, UNode, Option<SharedNode>, [UserWrap<u8>; 3],
		(UserWrap<String>, u8), Vec<UNode>,
		TwinU32, TwinU8, Named, Skipper, CompactFields, UsesCompactAs, Mixed, Tree, Chain, Transparent,
		Generic<u8, u16>, Generic<String, TwinU32>, Vec<Mixed>, Option<Named>, Box<Chain>, Vec<Skipper>, BTreeMap<u8, Mixed>,
		MelEnum, MelGen<u32>, MelGen<u64>, MelGen<u8>, Option<MelEnum>, [MelGen<u16>; 2], (MelEnum, CompactFields), Box<CompactFields>,
		TransCompact, Box<TransCompact>, [TransCompact; 2], Rc<TransCompact>, Vec<Box<[TransCompact; 2]>>, Arc<TransCompact>,
		TransEncodedAs, Box<TransEncodedAs>, [TransEncodedAs; 3], Option<Box<(u8, TransEncodedAs)>>,
		TransSkip, Box<TransSkip>, [TransSkip; 2],
		Vec<Box<u64>>, [Box<i64>; 3], VecDeque<Rc<u64>>, Vec<Arc<f64>>, Vec<Rc<u32>>, [Arc<u16>; 2], BinaryHeap<Box<u64>>, LinkedList<Rc<i64>>, Vec<Cow<'static, u64>>,
		GenEnum<u16, NotCodec, u32>, GenEnum<Vec<u8>, NotCodec, u64>, GenEnum<TwinU32, u8, u8>, Vec<GenEnum<bool, NotCodec, u16>>, Box<GenEnum<u8, NotCodec, u32>>,
		GenStruct<u32, NotCodec>, GenStruct<String, u8>, Option<GenStruct<TwinU8, NotCodec>>,
		Vec<NonZeroU32>, [NonZeroU16; 3], VecDeque<NonZeroU8>, BinaryHeap<NonZeroU64>, Vec<NonZeroI128>, [NonZeroI8; 2], Option<NonZeroI32>, Vec<Option<NonZeroU8>>,
		Marker, Vec<Marker>, VecDeque<Marker>, [Marker; 3], (Vec<Marker>, u8), Option<Vec<Marker>>, BTreeSet<Marker>, Vec<(Marker, Marker)>, Vec<[Marker; 2]>,
		Vec<[u64; 128]>, Vec<[u8; 64]>, VecDeque<[u32; 256]>, Vec<(u128, [u64; 30])>, Option<Vec<[u16; 300]>>,
		TransTagged, Box<TransTagged>, [TransTagged; 2], Rc<TransTagged>, Vec<Arc<TransTagged>>, TransTaggedAs, Box<TransTaggedAs>, [TransTaggedAs; 3],
		TransSkipPayload, Box<TransSkipPayload>, [TransSkipPayload; 2], (Box<TransSkipPayload>, u8),
		Box<Box<Box<u8>>>, Rc<Arc<Box<Box<u16>>>>, Arc<Box<Rc<bool>>>, Option<Box<Box<Box<Marker>>>>, (Box<Rc<Box<u8>>>, Box<u8>),
		TransMarker, Box<TransMarker>, [TransMarker; 2], Rc<TransMarker>, Vec<Box<TransMarker>>, (Box<TransMarker>, u8),
		TransMarkerVec, Box<TransMarkerVec>, Arc<TransMarkerVec>, [TransMarkerVec; 2],
		MelDup, Vec<MelDup>, Option<MelDup>, ConstDisc, Vec<ConstDisc>, (ConstDisc, u8), [ConstDisc; 3], BTreeSet<ConstDisc>, MidSkip, Box<MidSkip>, Vec<MidSkip>, SkipOrders, Vec<SkipOrders>, Option<SkipOrders>,
		OneAndSkipped, Vec<OneAndSkipped>, [OneAndSkipped; 3], VecDeque<OneAndSkipped>, Box<OneAndSkipped>, OneAligned, Vec<OneAligned>, [OneAligned; 2],
		MixedDisc, Vec<MixedDisc>, (MixedDisc,), Box<MixedDisc>, [MixedDisc; 4], BigGen<u8>, BigGen<u64>, Vec<BigGen<u8>>, Option<BigGen<u64>>,
		Vec<BTreeMap<u8, u8>>, (BTreeMap<u8, u8>, Vec<Box<u8>>), [BTreeSet<u8>; 3], Vec<BTreeSet<u16>>, (BTreeSet<u8>, BTreeSet<u8>, Box<u8>), Vec<(BTreeMap<u8, u8>, Box<u8>)>,
		Box<[bool; 4]>, Box<[NonZeroU8; 3]>, Rc<[OptionBool; 2]>, Vec<[bool; 2]>, [[bool; 2]; 2], Arc<[NonZeroU32; 2]>, Box<[Option<bool>; 2]>, VecDeque<bool>, BinaryHeap<bool>,
		Result<u8, u64>, Result<(), u8>, Result<(), [u8; 32]>, Option<Result<u8, (u16, u16)>>, Result<u64, u8>, [Result<bool, u32>; 2],
		Option<(u8, u16)>, Result<u32, (u8, u8)>, [(u8, bool); 3], Range<(u8, u8)>, Box<[u16; 4]>, Arc<(u8, u64)>, Rc<(u8, u64)>,
	);
	if std::env::var("VERIF_NO_CROSS").is_err() {
		cross!(ctx, stream, f;
			u8, i8, u16, u32, i64, u128, f32, f64, bool, OptionBool, NonZeroU8, NonZeroU32, NonZeroI64, Compact<u32>, Compact<u128>,
			Marker, TwinU32, TwinU8, String, Option<u8>, Option<bool>, [u8; 2], Box<u64>, Rc<u16>, TransCompact, TransTagged, Mixed,
			(u8, u16), Duration, Vec<u8>, Result<u8, bool>);
		cross_ord!(ctx, stream, f;
			u8, i8, u16, u32, i64, u128, bool, NonZeroU8, NonZeroU32, Marker, String, Option<u8>, [u8; 2], Box<u64>, Rc<u16>, (u8, u16),
			Vec<u8>, Duration);
		cross_zw!(ctx, stream, f; (), Box<()>, AllSkipped, PhantomData<u8>, UnitStruct, [u8; 0], TransSkipPayload);
	}
	generated::run_generated(ctx, stream, f);
	if std::env::var("VERIF_NO_CROSS").is_err() {
		run_random(ctx, stream, f);
	}
	zerow!(ctx, stream, f; Box<Box<()>>, Rc<Box<Arc<()>>>, Vec<Box<Box<()>>>, (Box<Box<()>>, Box<()>),);
	zerow!(ctx, stream, f; Vec<[u32; 0]>, Vec<[bool; 0]>, Vec<[[u16; 0]; 2]>, VecDeque<[u64; 0]>);
	zerow!(ctx, stream, f; Vec<()>, VecDeque<()>, LinkedList<()>, Vec<UnitStruct>, Vec<PhantomData<u8>>, BTreeSet<()>,
		Option<Vec<()>>, [(); 5], [UnitStruct; 3],
		Vec<Box<()>>, Vec<AllSkipped>, VecDeque<Rc<()>>, (Vec<Box<()>>, u8, bool), BinaryHeap<Box<()>>, Vec<Arc<[u32; 0]>>,
		Option<Vec<AllSkipped>>, LinkedList<Box<()>>, Vec<(Box<()>, AllSkipped)>);
	#[cfg(feature = "bitvec-f")]
	{
		plain!(ctx, stream, f;
			BitVec<u8, Lsb0>, BitVec<u8, Msb0>, BitVec<u16, Lsb0>, BitVec<u16, Msb0>,
			BitVec<u32, Lsb0>, BitVec<u32, Msb0>, BitVec<u64, Lsb0>, BitVec<u64, Msb0>,
			BitBox<u8, Lsb0>, BitBox<u8, Msb0>, BitBox<u16, Lsb0>, BitBox<u32, Msb0>, BitBox<u64, Lsb0>,
			Vec<BitVec<u8, Msb0>>, Option<BitVec<u16, Lsb0>>,
		);
	}
	#[cfg(feature = "bytes-f")]
	{
		plain!(ctx, stream, f; bytes::Bytes, Option<bytes::Bytes>, Vec<bytes::Bytes>, (u8, bytes::Bytes), (bytes::Bytes, u32), (bytes::Bytes, bytes::Bytes), [bytes::Bytes; 3], Vec<(bytes::Bytes, u8)>);
	}
	if stream != "mem" {
		nomem!(ctx, stream, f; NonPathAs, Vec<NonPathAs>, SingleNonPathAs, Box<SingleNonPathAs>, (u8, NonPathAs));
	}
	#[cfg(feature = "garray-f")]
	{
		if stream != "mem" {
			// GenericArray has no DecodeWithMemTracking impl
			nomem!(ctx, stream, f;
				generic_array::GenericArray<u8, generic_array::typenum::U4>,
				generic_array::GenericArray<u32, generic_array::typenum::U3>,
				generic_array::GenericArray<Vec<u8>, generic_array::typenum::U2>,
				generic_array::GenericArray<TwinU32, generic_array::typenum::U0>,
				// one-byte element types whose encoding is not their memory byte
				generic_array::GenericArray<OptionBool, generic_array::typenum::U3>,
				generic_array::GenericArray<Option<bool>, generic_array::typenum::U4>,
				generic_array::GenericArray<Compact<u8>, generic_array::typenum::U3>,
				generic_array::GenericArray<bool, generic_array::typenum::U5>,
				generic_array::GenericArray<NonZeroU8, generic_array::typenum::U2>,
				generic_array::GenericArray<Option<NonZeroU8>, generic_array::typenum::U2>,
				generic_array::GenericArray<Result<bool, ()>, generic_array::typenum::U2>,
				generic_array::GenericArray<IdxEnum, generic_array::typenum::U3>,
				generic_array::GenericArray<i8, generic_array::typenum::U2>,
				generic_array::GenericArray<(u8, u16), generic_array::typenum::U2>,
				generic_array::GenericArray<Box<u16>, generic_array::typenum::U2>,
			);
		}
	}
}
