//! Hand-written catalogue of derived types (structs, enums, recursion, attributes) with their
//! model descriptors. Generated derive programs (C05/C17) live in a separate generated crate.
#![allow(unused_variables)]

use crate::modeled::{Modeled, G};
use core::mem::size_of;
use parity_scale_codec::{Compact, CompactAs, Decode, DecodeWithMemTracking, Encode, MaxEncodedLen};
use std::fmt::Write;

/// Element-wise twin of `u32`: same bytes, but `TYPE_INFO = Unknown`, so sequences of it take the
/// item-by-item paths.
#[derive(Encode, Decode, DecodeWithMemTracking, MaxEncodedLen, PartialEq, Eq, PartialOrd, Ord, Debug, Clone)]
pub struct TwinU32(pub u32);
impl Modeled for TwinU32 {
	fn ty(d: usize) -> String {
		"tup 1 u32".into()
	}
	fn val(&self, out: &mut String, c: bool) {
		out.push_str("L 1 ");
		self.0.val(out, c)
	}
	fn gen(g: &mut G) -> Self {
		TwinU32(u32::gen(g))
	}
	fn min_len() -> usize {
		4
	}
}

#[derive(Encode, Decode, DecodeWithMemTracking, MaxEncodedLen, PartialEq, Eq, PartialOrd, Ord, Debug, Clone)]
pub struct TwinU8(pub u8);
impl Modeled for TwinU8 {
	fn ty(d: usize) -> String {
		"tup 1 u8".into()
	}
	fn val(&self, out: &mut String, c: bool) {
		out.push_str("L 1 ");
		self.0.val(out, c)
	}
	fn gen(g: &mut G) -> Self {
		TwinU8(u8::gen(g))
	}
	fn min_len() -> usize {
		1
	}
}

#[derive(Encode, Decode, DecodeWithMemTracking, MaxEncodedLen, PartialEq, Eq, Debug, Clone, Default)]
pub struct UnitStruct;
impl Modeled for UnitStruct {
	fn ty(d: usize) -> String {
		"tup 0".into()
	}
	fn val(&self, out: &mut String, c: bool) {
		out.push_str("L 0");
	}
	fn gen(g: &mut G) -> Self {
		UnitStruct
	}
	fn min_len() -> usize {
		0
	}
}

#[derive(Encode, Decode, DecodeWithMemTracking, PartialEq, Debug, Clone)]
pub struct Named {
	pub a: u32,
	pub b: Vec<u8>,
	pub c: Option<i16>,
}
impl Modeled for Named {
	fn ty(d: usize) -> String {
		format!("tup 3 {} {} {}", u32::ty(d), Vec::<u8>::ty(d), Option::<i16>::ty(d))
	}
	fn val(&self, out: &mut String, c: bool) {
		out.push_str("L 3 ");
		self.a.val(out, c);
		out.push(' ');
		self.b.val(out, c);
		out.push(' ');
		self.c.val(out, c);
	}
	fn gen(g: &mut G) -> Self {
		Named { a: u32::gen(g), b: Vec::gen(g), c: Option::gen(g) }
	}
	fn min_len() -> usize {
		6
	}
}

/// A skipped field in the middle: absent from the wire, reset to `Default` on decode.
#[derive(Encode, Decode, DecodeWithMemTracking, MaxEncodedLen, PartialEq, Debug, Clone)]
pub struct Skipper {
	pub a: u8,
	#[codec(skip)]
	pub s: u64,
	pub b: bool,
}
impl Modeled for Skipper {
	fn ty(d: usize) -> String {
		"tup 2 u8 bool".into()
	}
	fn val(&self, out: &mut String, c: bool) {
		out.push_str("L 2 ");
		self.a.val(out, c);
		out.push(' ');
		self.b.val(out, c);
	}
	fn gen(g: &mut G) -> Self {
		// skipped field generated at its default so that `decode(encode(v)) == v` literally
		Skipper { a: u8::gen(g), s: 0, b: bool::gen(g) }
	}
	fn min_len() -> usize {
		2
	}
}

#[derive(Encode, Decode, DecodeWithMemTracking, MaxEncodedLen, PartialEq, Debug, Clone)]
pub struct CompactFields {
	#[codec(compact)]
	pub a: u32,
	#[codec(compact)]
	pub b: u128,
	pub c: u8,
	#[codec(encoded_as = "<u64 as parity_scale_codec::HasCompact>::Type")]
	pub d: u64,
}
impl Modeled for CompactFields {
	fn ty(d: usize) -> String {
		"tup 4 c 4 c 16 u8 c 8".into()
	}
	fn val(&self, out: &mut String, c: bool) {
		write!(out, "L 4 n{} n{} n{} n{}", self.a, self.b, self.c, self.d).unwrap();
	}
	fn gen(g: &mut G) -> Self {
		CompactFields { a: u32::gen(g), b: u128::gen(g), c: u8::gen(g), d: u64::gen(g) }
	}
	fn min_len() -> usize {
		4
	}
}

/// `CompactAs` newtype: `Compact<Wrapped>` is `Compact<u64>` on the wire.
#[derive(Encode, Decode, DecodeWithMemTracking, CompactAs, PartialEq, Eq, Debug, Clone, Copy)]
pub struct Wrapped(pub u64);
#[derive(Encode, Decode, DecodeWithMemTracking, PartialEq, Debug, Clone)]
pub struct UsesCompactAs {
	#[codec(compact)]
	pub w: Wrapped,
	pub t: u8,
}
impl Modeled for UsesCompactAs {
	fn ty(d: usize) -> String {
		"tup 2 c 8 u8".into()
	}
	fn val(&self, out: &mut String, c: bool) {
		write!(out, "L 2 n{} n{}", self.w.0, self.t).unwrap();
	}
	fn gen(g: &mut G) -> Self {
		UsesCompactAs { w: Wrapped(u64::gen(g)), t: u8::gen(g) }
	}
	fn min_len() -> usize {
		2
	}
}
impl Modeled for Compact<Wrapped> {
	fn ty(d: usize) -> String {
		"c 8".into()
	}
	fn val(&self, out: &mut String, c: bool) {
		write!(out, "n{}", (self.0).0).unwrap();
	}
	fn gen(g: &mut G) -> Self {
		Compact(Wrapped(u64::gen(g)))
	}
	fn min_len() -> usize {
		1
	}
}

/// Enum mixing implicit positions, an index attribute, a discriminant and a skipped variant.
#[derive(Encode, Decode, DecodeWithMemTracking, PartialEq, Debug, Clone)]
#[repr(u8)]
pub enum Mixed {
	A,
	B(u8),
	#[codec(index = 7)]
	C {
		x: u16,
		y: Option<bool>,
	},
	#[codec(skip)]
	Hidden(u32),
	D = 9,
	E(Vec<u16>, #[codec(compact)] u64),
}
impl Modeled for Mixed {
	fn ty(d: usize) -> String {
		// implicit index = position among non-skipped variants: A=0, B=1, C=7 (attr), D=9 (discr), E=4
		format!("enum 5 0 tup 0 1 tup 1 u8 7 tup 2 u16 opt bool 9 tup 0 4 tup 2 {} c 8", Vec::<u16>::ty(d))
	}
	fn val(&self, out: &mut String, c: bool) {
		match self {
			Mixed::A => out.push_str("V 0 L 0"),
			Mixed::B(b) => write!(out, "V 1 L 1 n{}", b).unwrap(),
			Mixed::C { x, y } => {
				write!(out, "V 7 L 2 n{} ", x).unwrap();
				y.val(out, c)
			},
			Mixed::Hidden(_) => out.push('K'),
			Mixed::D => out.push_str("V 9 L 0"),
			Mixed::E(v, n) => {
				out.push_str("V 4 L 2 ");
				v.val(out, c);
				write!(out, " n{}", n).unwrap()
			},
		}
	}
	fn gen(g: &mut G) -> Self {
		match g.rng.below(5) {
			0 => Mixed::A,
			1 => Mixed::B(u8::gen(g)),
			2 => Mixed::C { x: u16::gen(g), y: Option::gen(g) },
			3 => Mixed::D,
			_ => Mixed::E(Vec::gen(g), u64::gen(g)),
		}
	}
	fn min_len() -> usize {
		1
	}
}

/// Recursive through `Vec` (descends once per level).
#[derive(Encode, Decode, DecodeWithMemTracking, PartialEq, Debug, Clone)]
pub enum Tree {
	Leaf(u8),
	Node(Vec<Tree>),
}
impl Modeled for Tree {
	fn ty(d: usize) -> String {
		if d == 0 {
			// never reached: the harness unfolds deeper than the input is long
			"enum 0".into()
		} else {
			format!("enum 2 0 tup 1 u8 1 tup 1 vec {} {}", size_of::<Tree>(), Tree::ty(d - 1))
		}
	}
	fn val(&self, out: &mut String, c: bool) {
		match self {
			Tree::Leaf(b) => write!(out, "V 0 L 1 n{}", b).unwrap(),
			Tree::Node(v) => {
				out.push_str("V 1 L 1 ");
				v.val(out, c)
			},
		}
	}
	fn gen(g: &mut G) -> Self {
		if g.depth == 0 || g.rng.chance(1, 2) {
			Tree::Leaf(u8::gen(g))
		} else {
			g.depth -= 1;
			let n = g.take_len().min(4);
			let v = (0..n).map(|_| Tree::gen(g)).collect();
			g.depth += 1;
			Tree::Node(v)
		}
	}
	fn min_len() -> usize {
		2
	}
}

/// Recursive through `Box` and `Option` (a cons list).
#[derive(Encode, Decode, DecodeWithMemTracking, PartialEq, Debug, Clone)]
pub struct Chain {
	pub head: u16,
	pub tail: Option<Box<Chain>>,
}
impl Modeled for Chain {
	fn ty(d: usize) -> String {
		if d == 0 {
			"enum 0".into()
		} else {
			format!("tup 2 u16 opt box {} {}", size_of::<Chain>(), Chain::ty(d - 1))
		}
	}
	fn val(&self, out: &mut String, c: bool) {
		write!(out, "L 2 n{} ", self.head).unwrap();
		match &self.tail {
			None => out.push('N'),
			Some(t) => {
				out.push_str("S ");
				t.val(out, c)
			},
		}
	}
	fn gen(g: &mut G) -> Self {
		let head = u16::gen(g);
		if g.depth == 0 || g.rng.chance(1, 3) {
			Chain { head, tail: None }
		} else {
			g.depth -= 1;
			let t = Chain::gen(g);
			g.depth += 1;
			Chain { head, tail: Some(Box::new(t)) }
		}
	}
	fn min_len() -> usize {
		3
	}
}

/// `repr(transparent)` newtype over an array: derives the in-place `decode_into`.
#[derive(Encode, Decode, DecodeWithMemTracking, PartialEq, Debug, Clone)]
#[repr(transparent)]
pub struct Transparent(pub [u16; 5]);
impl Modeled for Transparent {
	fn ty(d: usize) -> String {
		"tup 1 arr 5 u16".into()
	}
	fn val(&self, out: &mut String, c: bool) {
		out.push_str("L 1 ");
		self.0.val(out, c)
	}
	fn gen(g: &mut G) -> Self {
		Transparent(<[u16; 5]>::gen(g))
	}
	fn min_len() -> usize {
		10
	}
}

#[derive(Encode, Decode, DecodeWithMemTracking, PartialEq, Debug, Clone)]
pub struct Generic<T, U> {
	pub t: T,
	pub u: Vec<U>,
}
impl<T: Modeled, U: Modeled> Modeled for Generic<T, U> {
	fn ty(d: usize) -> String {
		format!("tup 2 {} {}", T::ty(d), Vec::<U>::ty(d))
	}
	fn val(&self, out: &mut String, c: bool) {
		out.push_str("L 2 ");
		self.t.val(out, c);
		out.push(' ');
		self.u.val(out, c)
	}
	fn gen(g: &mut G) -> Self {
		Generic { t: T::gen(g), u: Vec::gen(g) }
	}
	fn min_len() -> usize {
		T::min_len() + 1
	}
}

/// An enum deriving `MaxEncodedLen` with compact fields, a skipped variant and a skipped field.
#[derive(Encode, Decode, DecodeWithMemTracking, MaxEncodedLen, PartialEq, Debug, Clone)]
pub enum MelEnum {
	A,
	B(#[codec(compact)] u128, u8),
	#[codec(skip)]
	S(u64),
	C {
		x: Option<u16>,
		#[codec(skip)]
		y: u32,
	},
}
impl Modeled for MelEnum {
	fn ty(d: usize) -> String {
		"enum 3 0 tup 0 1 tup 2 c 16 u8 2 tup 1 opt u16".into()
	}
	fn val(&self, out: &mut String, c: bool) {
		match self {
			MelEnum::A => out.push_str("V 0 L 0"),
			MelEnum::B(a, b) => write!(out, "V 1 L 2 n{} n{}", a, b).unwrap(),
			MelEnum::S(_) => out.push('K'),
			MelEnum::C { x, .. } => {
				out.push_str("V 2 L 1 ");
				x.val(out, c)
			},
		}
	}
	fn gen(g: &mut G) -> Self {
		match g.rng.below(3) {
			0 => MelEnum::A,
			1 => MelEnum::B(u128::gen(g), u8::gen(g)),
			_ => MelEnum::C { x: Option::gen(g), y: 0 },
		}
	}
	fn min_len() -> usize {
		1
	}
}

/// Generic struct with a compact field of the type parameter.
#[derive(Encode, Decode, DecodeWithMemTracking, MaxEncodedLen, PartialEq, Debug, Clone)]
pub struct MelGen<T: parity_scale_codec::HasCompact> {
	#[codec(compact)]
	pub a: T,
	pub b: [T; 2],
}
pub trait CompactWidth {
	const W: usize;
}
impl CompactWidth for u8 {
	const W: usize = 1;
}
impl CompactWidth for u16 {
	const W: usize = 2;
}
impl CompactWidth for u32 {
	const W: usize = 4;
}
impl CompactWidth for u64 {
	const W: usize = 8;
}
impl<T: Modeled + parity_scale_codec::HasCompact + CompactWidth> Modeled for MelGen<T> {
	fn ty(d: usize) -> String {
		format!("tup 2 c {} arr 2 {}", T::W, T::ty(d))
	}
	fn val(&self, out: &mut String, c: bool) {
		out.push_str("L 2 ");
		self.a.val(out, c);
		out.push_str(" L 2 ");
		self.b[0].val(out, c);
		out.push(' ');
		self.b[1].val(out, c);
	}
	fn gen(g: &mut G) -> Self {
		MelGen { a: T::gen(g), b: [T::gen(g), T::gen(g)] }
	}
	fn min_len() -> usize {
		1 + 2 * T::min_len()
	}
}

/// Element-wise twin of any type: a derived newtype (`TYPE_INFO = Unknown`), so that sequences of
/// it take the item-by-item paths while sequences of the primitive itself take the bulk paths.
#[derive(Encode, Decode, DecodeWithMemTracking, PartialEq, Debug, Clone)]
pub struct Twin<T>(pub T);
impl<T: Modeled> Modeled for Twin<T> {
	fn ty(d: usize) -> String {
		format!("tup 1 {}", T::ty(d))
	}
	fn val(&self, out: &mut String, c: bool) {
		out.push_str("L 1 ");
		self.0.val(out, c)
	}
	fn gen(g: &mut G) -> Self {
		Twin(T::gen(g))
	}
	fn min_len() -> usize {
		T::min_len()
	}
}

/// A struct whose only field is skipped: empty encoding, non-zero size (finding F4).
#[derive(Encode, Decode, DecodeWithMemTracking, PartialEq, Debug, Clone, Default)]
pub struct AllSkipped {
	#[codec(skip)]
	pub x: u64,
}
impl Modeled for AllSkipped {
	fn ty(d: usize) -> String {
		"tup 0".into()
	}
	fn val(&self, out: &mut String, c: bool) {
		out.push_str("L 0");
	}
	fn gen(g: &mut G) -> Self {
		AllSkipped { x: 0 }
	}
	fn min_len() -> usize {
		0
	}
}

/// `repr(transparent)` newtypes whose field carries a wire-format attribute: the derive must NOT
/// take the in-place `decode_into` shortcut for these (reached through Box/Rc/Arc/arrays).
#[derive(Encode, Decode, DecodeWithMemTracking, MaxEncodedLen, PartialEq, Debug, Clone)]
#[repr(transparent)]
pub struct TransCompact(#[codec(compact)] pub u64);
impl Modeled for TransCompact {
	fn ty(d: usize) -> String {
		"adt struct 1 c u64".into()
	}
	fn val(&self, out: &mut String, c: bool) {
		write!(out, "L 1 n{}", self.0).unwrap();
	}
	fn gen(g: &mut G) -> Self {
		TransCompact(u64::gen(g))
	}
	fn min_len() -> usize {
		1
	}
}
#[derive(Encode, Decode, DecodeWithMemTracking, PartialEq, Debug, Clone)]
#[repr(transparent)]
pub struct TransEncodedAs(#[codec(encoded_as = "<u32 as parity_scale_codec::HasCompact>::Type")] pub u32);
impl Modeled for TransEncodedAs {
	fn ty(d: usize) -> String {
		"adt struct 1 a c 4 u32".into()
	}
	fn val(&self, out: &mut String, c: bool) {
		write!(out, "L 1 n{}", self.0).unwrap();
	}
	fn gen(g: &mut G) -> Self {
		TransEncodedAs(u32::gen(g))
	}
	fn min_len() -> usize {
		1
	}
}
/// transparent with a skipped zero-sized field next to the real one
#[derive(Encode, Decode, DecodeWithMemTracking, PartialEq, Debug, Clone)]
#[repr(transparent)]
pub struct TransSkip(pub u16, #[codec(skip)] pub core::marker::PhantomData<u8>);
impl Modeled for TransSkip {
	fn ty(d: usize) -> String {
		"adt struct 2 p u16 s unit".into()
	}
	fn val(&self, out: &mut String, c: bool) {
		write!(out, "L 1 n{}", self.0).unwrap();
	}
	fn gen(g: &mut G) -> Self {
		TransSkip(u16::gen(g), core::marker::PhantomData)
	}
	fn min_len() -> usize {
		2
	}
}

/// Finding F5: a type cycle that consumes no input per level (no values; decoding never returns).
#[derive(Encode, Decode)]
pub struct Inf(pub Box<Inf>);

/// Not a codec type at all: only usable in skipped positions.
#[derive(Default, Clone, PartialEq, Debug)]
pub struct NotCodec(pub u8);

/// Generic enum: the bounds the derive generates must cover the encoded positions only (a skipped
/// field / variant of a type that is no codec type must compile), compact and encoded_as fields of
/// a type parameter, PhantomData of a non-codec parameter.
#[derive(Encode, Decode, DecodeWithMemTracking, PartialEq, Debug, Clone)]
pub enum GenEnum<T, S: Default, C: parity_scale_codec::HasCompact> {
	A(T),
	B {
		#[codec(skip)]
		s: S,
		#[codec(compact)]
		c: C,
		t: Option<T>,
	},
	#[codec(skip)]
	Hidden(S),
	#[codec(index = 9)]
	D(core::marker::PhantomData<S>, #[codec(encoded_as = "<C as parity_scale_codec::HasCompact>::Type")] C),
}
impl<T: Modeled, S: Default + 'static, C: Modeled + parity_scale_codec::HasCompact + CompactWidth> Modeled for GenEnum<T, S, C> {
	fn ty(d: usize) -> String {
		format!(
			"adt enum 4 0 - - 1 p {} 0 - - 3 s unit c {} p {} 1 - - 1 p unit 0 9 - 2 p unit a c {} {}",
			T::ty(d),
			C::ty(d),
			Option::<T>::ty(d),
			C::W,
			C::ty(d)
		)
	}
	fn val(&self, out: &mut String, c: bool) {
		match self {
			GenEnum::A(t) => {
				out.push_str("V 0 L 1 ");
				t.val(out, c)
			},
			GenEnum::B { c: cc, t, .. } => {
				out.push_str("V 1 L 2 ");
				cc.val(out, c);
				out.push(' ');
				t.val(out, c)
			},
			GenEnum::Hidden(_) => out.push('K'),
			GenEnum::D(_, cc) => {
				out.push_str("V 9 L 2 U ");
				cc.val(out, c)
			},
		}
	}
	fn gen(g: &mut G) -> Self {
		match g.rng.below(3) {
			0 => GenEnum::A(T::gen(g)),
			1 => GenEnum::B { s: S::default(), c: C::gen(g), t: Option::<T>::gen(g) },
			_ => GenEnum::D(core::marker::PhantomData, C::gen(g)),
		}
	}
	fn min_len() -> usize {
		1
	}
}

/// Generic struct over a sequence parameter with a skipped generic field and nested generics.
#[derive(Encode, Decode, DecodeWithMemTracking, PartialEq, Debug, Clone)]
pub struct GenStruct<T, S: Default>(pub Vec<T>, #[codec(skip)] pub S, pub Twin<Option<T>>, pub [T; 2]);
impl<T: Modeled, S: Default + 'static> Modeled for GenStruct<T, S> {
	fn ty(d: usize) -> String {
		format!("adt struct 4 p {} s unit p {} p {}", Vec::<T>::ty(d), Twin::<Option<T>>::ty(d), <[T; 2]>::ty(d))
	}
	fn val(&self, out: &mut String, c: bool) {
		out.push_str("L 3 ");
		self.0.val(out, c);
		out.push(' ');
		self.2.val(out, c);
		out.push(' ');
		self.3.val(out, c)
	}
	fn gen(g: &mut G) -> Self {
		GenStruct(Vec::<T>::gen(g), S::default(), Twin(Option::<T>::gen(g)), [T::gen(g), T::gen(g)])
	}
	fn min_len() -> usize {
		2
	}
}

/// Zero-sized in memory, one byte on the wire (the index of its only variant).
#[derive(Encode, Decode, DecodeWithMemTracking, MaxEncodedLen, PartialEq, Eq, PartialOrd, Ord, Debug, Clone, Copy)]
pub enum Marker {
	#[codec(index = 42)]
	Only,
}
impl Modeled for Marker {
	fn ty(d: usize) -> String {
		"adt enum 1 0 42 - 0".into()
	}
	fn val(&self, out: &mut String, c: bool) {
		out.push_str("V 42 L 0");
	}
	fn gen(g: &mut G) -> Self {
		Marker::Only
	}
	fn min_len() -> usize {
		1
	}
}

/// `repr(transparent)` with SEVERAL fields of which only some carry a wire attribute (the other is
/// a zero-sized marker): the derive must not take the in-place `decode_into` shortcut.
#[derive(Encode, Decode, DecodeWithMemTracking, PartialEq, Debug, Clone)]
#[repr(transparent)]
pub struct TransTagged(#[codec(compact)] pub u32, pub core::marker::PhantomData<u8>);
impl Modeled for TransTagged {
	fn ty(d: usize) -> String {
		"adt struct 2 c u32 p unit".into()
	}
	fn val(&self, out: &mut String, c: bool) {
		write!(out, "L 2 n{} U", self.0).unwrap();
	}
	fn gen(g: &mut G) -> Self {
		TransTagged(u32::gen(g), core::marker::PhantomData)
	}
	fn min_len() -> usize {
		1
	}
}
#[derive(Encode, Decode, DecodeWithMemTracking, PartialEq, Debug, Clone)]
#[repr(transparent)]
pub struct TransTaggedAs {
	pub marker: (),
	#[codec(encoded_as = "<u64 as parity_scale_codec::HasCompact>::Type")]
	pub value: u64,
}
impl Modeled for TransTaggedAs {
	fn ty(d: usize) -> String {
		"adt struct 2 p unit a c 8 u64".into()
	}
	fn val(&self, out: &mut String, c: bool) {
		write!(out, "L 2 U n{}", self.value).unwrap();
	}
	fn gen(g: &mut G) -> Self {
		TransTaggedAs { marker: (), value: u64::gen(g) }
	}
	fn min_len() -> usize {
		1
	}
}
/// The non-zero-sized field is the skipped one: nothing on the wire, default on decode.
#[derive(Encode, Decode, DecodeWithMemTracking, PartialEq, Debug, Clone)]
#[repr(transparent)]
pub struct TransSkipPayload(#[codec(skip)] pub u32, pub core::marker::PhantomData<u8>);
impl Modeled for TransSkipPayload {
	fn ty(d: usize) -> String {
		"adt struct 2 s u32 p unit".into()
	}
	fn val(&self, out: &mut String, c: bool) {
		out.push_str("L 1 U");
	}
	fn gen(g: &mut G) -> Self {
		TransSkipPayload(0, core::marker::PhantomData)
	}
	fn min_len() -> usize {
		0
	}
}


/// `repr(transparent)` over a real field plus a field that is zero-sized in memory but NOT on the
/// wire (one index byte): the in-place `decode_into` must still decode it.
#[derive(Encode, Decode, DecodeWithMemTracking, PartialEq, Debug, Clone)]
#[repr(transparent)]
pub struct TransMarker(pub u32, pub Marker);
impl Modeled for TransMarker {
	fn ty(d: usize) -> String {
		format!("adt struct 2 p u32 p {}", Marker::ty(d))
	}
	fn val(&self, out: &mut String, c: bool) {
		write!(out, "L 2 n{} ", self.0).unwrap();
		self.1.val(out, c)
	}
	fn gen(g: &mut G) -> Self {
		TransMarker(u32::gen(g), Marker::Only)
	}
	fn min_len() -> usize {
		5
	}
}
/// The same with the marker first and a heap-holding payload.
#[derive(Encode, Decode, DecodeWithMemTracking, PartialEq, Debug, Clone)]
#[repr(transparent)]
pub struct TransMarkerVec {
	pub tag: Marker,
	pub items: Vec<u16>,
}
impl Modeled for TransMarkerVec {
	fn ty(d: usize) -> String {
		format!("adt struct 2 p {} p {}", Marker::ty(d), Vec::<u16>::ty(d))
	}
	fn val(&self, out: &mut String, c: bool) {
		out.push_str("L 2 ");
		self.tag.val(out, c);
		out.push(' ');
		self.items.val(out, c)
	}
	fn gen(g: &mut G) -> Self {
		TransMarkerVec { tag: Marker::Only, items: Vec::gen(g) }
	}
	fn min_len() -> usize {
		2
	}
}

/// A skipped variant declared BEFORE a live variant of the same shape (and that shape is the
/// largest): the declared maximum must still count the live one.
#[derive(Encode, Decode, DecodeWithMemTracking, MaxEncodedLen, PartialEq, Debug, Clone)]
pub enum MelDup {
	#[codec(skip)]
	Legacy(u64),
	Small(u8),
	Current(u64),
	#[codec(skip)]
	Old { a: u32, b: u32 },
	Pair { a: u32, b: u32 },
}
impl Modeled for MelDup {
	fn ty(d: usize) -> String {
		"adt enum 5 1 - - 1 p u64 0 - - 1 p u8 0 - - 1 p u64 1 - - 2 p u32 p u32 0 - - 2 p u32 p u32".into()
	}
	fn val(&self, out: &mut String, c: bool) {
		match self {
			MelDup::Small(x) => write!(out, "V 0 L 1 n{}", x).unwrap(),
			MelDup::Current(x) => write!(out, "V 1 L 1 n{}", x).unwrap(),
			MelDup::Pair { a, b } => write!(out, "V 2 L 2 n{} n{}", a, b).unwrap(),
			_ => out.push('K'),
		}
	}
	fn gen(g: &mut G) -> Self {
		match g.rng.below(3) {
			0 => MelDup::Small(u8::gen(g)),
			1 => MelDup::Current(u64::gen(g)),
			_ => MelDup::Pair { a: u32::gen(g), b: u32::gen(g) },
		}
	}
	fn min_len() -> usize {
		1
	}
}

pub const DISC_BASE: isize = 0x40;
pub mod tags {
	pub const HIGH: isize = 0xF0;
}
/// Variant indices given by NON-LITERAL discriminant expressions (constants, arithmetic, paths)
/// that exceed every literal index and position of the enum.
#[derive(Encode, Decode, DecodeWithMemTracking, MaxEncodedLen, PartialEq, Eq, PartialOrd, Ord, Debug, Clone, Copy)]
pub enum ConstDisc {
	Ping = DISC_BASE,
	Pong = DISC_BASE + 1,
	Low = 2,
	Top = tags::HIGH,
}
impl Modeled for ConstDisc {
	fn ty(d: usize) -> String {
		"adt enum 4 0 - 64 0 0 - 65 0 0 - 2 0 0 - 240 0".into()
	}
	fn val(&self, out: &mut String, c: bool) {
		write!(out, "V {} L 0", *self as isize).unwrap();
	}
	fn gen(g: &mut G) -> Self {
		[ConstDisc::Ping, ConstDisc::Pong, ConstDisc::Low, ConstDisc::Top][g.rng.below(4) as usize]
	}
	fn min_len() -> usize {
		1
	}
}

/// A tuple struct with skipped fields in the middle, each followed by encoded ones of other widths.
#[derive(Encode, Decode, DecodeWithMemTracking, MaxEncodedLen, PartialEq, Debug, Clone)]
pub struct MidSkip(pub u8, #[codec(skip)] pub u16, pub u32, #[codec(skip)] pub u8, pub u64, #[codec(compact)] pub u16);
impl Modeled for MidSkip {
	fn ty(d: usize) -> String {
		"adt struct 6 p u8 s u16 p u32 s u8 p u64 c u16".into()
	}
	fn val(&self, out: &mut String, c: bool) {
		write!(out, "L 4 n{} n{} n{} n{}", self.0, self.2, self.4, self.5).unwrap();
	}
	fn gen(g: &mut G) -> Self {
		MidSkip(u8::gen(g), 0, u32::gen(g), 0, u64::gen(g), u16::gen(g))
	}
	fn min_len() -> usize {
		14
	}
}

/// `index` and `skip` given as two separate attributes, in both orders, and among other attributes.
#[derive(Encode, Decode, DecodeWithMemTracking, MaxEncodedLen, PartialEq, Debug, Clone)]
pub enum SkipOrders {
	#[codec(index = 5)]
	#[codec(skip)]
	A(u8),
	B,
	#[codec(skip)]
	#[codec(index = 9)]
	C,
	D(u16),
	/// documented
	#[codec(index = 3)]
	#[allow(dead_code)]
	#[codec(skip)]
	E { x: u32 },
	F { #[codec(compact)] y: u64 },
}
impl Modeled for SkipOrders {
	fn ty(d: usize) -> String {
		"adt enum 6 1 5 - 1 p u8 0 - - 0 1 9 - 0 0 - - 1 p u16 1 3 - 1 p u32 0 - - 1 c u64".into()
	}
	fn val(&self, out: &mut String, c: bool) {
		match self {
			SkipOrders::B => out.push_str("V 0 L 0"),
			SkipOrders::D(x) => write!(out, "V 1 L 1 n{}", x).unwrap(),
			SkipOrders::F { y } => write!(out, "V 2 L 1 n{}", y).unwrap(),
			_ => out.push('K'),
		}
	}
	fn gen(g: &mut G) -> Self {
		match g.rng.below(3) {
			0 => SkipOrders::B,
			1 => SkipOrders::D(u16::gen(g)),
			_ => SkipOrders::F { y: u64::gen(g) },
		}
	}
	fn min_len() -> usize {
		1
	}
}

/// One encoded primitive field next to a NON-zero-sized skipped sibling: the single-field forwarding
/// applies, but the struct's memory is not the field's memory (sequences of it must not go bulk).
#[derive(Encode, Decode, DecodeWithMemTracking, MaxEncodedLen, PartialEq, Debug, Clone)]
pub struct OneAndSkipped {
	pub x: u32,
	#[codec(skip)]
	pub cache: u64,
}
impl Modeled for OneAndSkipped {
	fn ty(d: usize) -> String {
		"adt struct 2 p u32 s u64".into()
	}
	fn val(&self, out: &mut String, c: bool) {
		write!(out, "L 1 n{}", self.x).unwrap();
	}
	fn gen(g: &mut G) -> Self {
		OneAndSkipped { x: u32::gen(g), cache: 0 }
	}
	fn min_len() -> usize {
		4
	}
}
/// ... and an over-aligned newtype (padding after the field).
#[derive(Encode, Decode, DecodeWithMemTracking, MaxEncodedLen, PartialEq, Debug, Clone)]
#[repr(align(16))]
pub struct OneAligned(pub u16);
impl Modeled for OneAligned {
	fn ty(d: usize) -> String {
		"adt struct 1 p u16".into()
	}
	fn val(&self, out: &mut String, c: bool) {
		write!(out, "L 1 n{}", self.0).unwrap();
	}
	fn gen(g: &mut G) -> Self {
		OneAligned(u16::gen(g))
	}
	fn min_len() -> usize {
		2
	}
}

/// Field-less enum mixing explicit discriminants and implicit positions: the codec index of an
/// implicit variant is its POSITION (B = 1, D = 3), not the Rust discriminant (6, 10).
#[derive(Encode, Decode, DecodeWithMemTracking, MaxEncodedLen, PartialEq, Eq, PartialOrd, Ord, Debug, Clone, Copy)]
pub enum MixedDisc {
	A = 5,
	B,
	C = 9,
	D,
}
impl Modeled for MixedDisc {
	fn ty(d: usize) -> String {
		"adt enum 4 0 - 5 0 0 - - 0 0 - 9 0 0 - - 0".into()
	}
	fn val(&self, out: &mut String, c: bool) {
		let idx = match self {
			MixedDisc::A => 5,
			MixedDisc::B => 1,
			MixedDisc::C => 9,
			MixedDisc::D => 3,
		};
		write!(out, "V {} L 0", idx).unwrap();
	}
	fn gen(g: &mut G) -> Self {
		[MixedDisc::A, MixedDisc::B, MixedDisc::C, MixedDisc::D][g.rng.below(4) as usize]
	}
	fn min_len() -> usize {
		1
	}
}

/// A generic enum with more than eight encodable variants (instantiated with a narrow and with a
/// wide parameter, the narrow one first).
#[derive(Encode, Decode, DecodeWithMemTracking, MaxEncodedLen, PartialEq, Debug, Clone)]
pub enum BigGen<T> {
	V0,
	V1(u8),
	V2(T),
	V3(u16),
	V4,
	V5(T, u8),
	V6,
	V7(bool),
	V8,
	V9(Option<T>),
}
impl<T: Modeled> Modeled for BigGen<T> {
	fn ty(d: usize) -> String {
		format!(
			"adt enum 10 0 - - 0 0 - - 1 p u8 0 - - 1 p {} 0 - - 1 p u16 0 - - 0 0 - - 2 p {} p u8 0 - - 0 0 - - 1 p bool 0 - - 0 0 - - 1 p {}",
			T::ty(d), T::ty(d), Option::<T>::ty(d)
		)
	}
	fn val(&self, out: &mut String, c: bool) {
		match self {
			BigGen::V0 => out.push_str("V 0 L 0"),
			BigGen::V1(x) => write!(out, "V 1 L 1 n{}", x).unwrap(),
			BigGen::V2(x) => {
				out.push_str("V 2 L 1 ");
				x.val(out, c)
			},
			BigGen::V3(x) => write!(out, "V 3 L 1 n{}", x).unwrap(),
			BigGen::V4 => out.push_str("V 4 L 0"),
			BigGen::V5(x, y) => {
				out.push_str("V 5 L 2 ");
				x.val(out, c);
				write!(out, " n{}", y).unwrap()
			},
			BigGen::V6 => out.push_str("V 6 L 0"),
			BigGen::V7(x) => {
				out.push_str("V 7 L 1 ");
				x.val(out, c)
			},
			BigGen::V8 => out.push_str("V 8 L 0"),
			BigGen::V9(x) => {
				out.push_str("V 9 L 1 ");
				x.val(out, c)
			},
		}
	}
	fn gen(g: &mut G) -> Self {
		match g.rng.below(10) {
			0 => BigGen::V0,
			1 => BigGen::V1(u8::gen(g)),
			2 => BigGen::V2(T::gen(g)),
			3 => BigGen::V3(u16::gen(g)),
			4 => BigGen::V4,
			5 => BigGen::V5(T::gen(g), u8::gen(g)),
			6 => BigGen::V6,
			7 => BigGen::V7(bool::gen(g)),
			8 => BigGen::V8,
			_ => BigGen::V9(Option::<T>::gen(g)),
		}
	}
	fn min_len() -> usize {
		1
	}
}

/// A bounded byte vector whose bound is a type parameter, and a struct using it with
/// `mel_bound(skip_type_params(..))`: the parameter carries no `MaxEncodedLen` bound, but the field
/// that mentions it is real data. (Not `Modeled`: only the declared-maximum oracle runs on it.)
pub trait Lim {
	const N: u32;
}
#[derive(Clone, Debug, PartialEq)]
pub struct L32;
impl Lim for L32 {
	const N: u32 = 32;
}
#[derive(Encode, Decode, Clone, Debug, PartialEq)]
pub struct BoundedBytes<S>(pub Vec<u8>, pub core::marker::PhantomData<S>);
impl<S: Lim> MaxEncodedLen for BoundedBytes<S> {
	fn max_encoded_len() -> usize {
		use parity_scale_codec::CompactLen;
		Compact::<u32>::compact_len(&S::N) + S::N as usize
	}
}
#[derive(Encode, Decode, MaxEncodedLen, Clone, Debug, PartialEq)]
#[codec(mel_bound(skip_type_params(S)))]
pub struct NamedBounded<S: Lim> {
	pub id: u32,
	pub name: BoundedBytes<S>,
}
#[derive(Encode, Decode, MaxEncodedLen, Clone, Debug, PartialEq)]
#[codec(mel_bound(skip_type_params(S)))]
pub enum MessageBounded<S: Lim> {
	Empty,
	Text(#[codec(compact)] u32, BoundedBytes<S>),
	Tag(u8),
}

// ---------------------------------------------------------------------------------------------
// Round 4: user extension points
// ---------------------------------------------------------------------------------------------

/// Field-less enum with `index` attributes: one byte in memory, another byte on the wire.
#[derive(Encode, Decode, DecodeWithMemTracking, MaxEncodedLen, PartialEq, Eq, Debug, Clone, Copy)]
pub enum IdxEnum {
	#[codec(index = 10)]
	A,
	#[codec(index = 20)]
	B,
	C,
}
impl Modeled for IdxEnum {
	fn ty(_d: usize) -> String {
		"enum 3 10 tup 0 20 tup 0 2 tup 0".into()
	}
	fn val(&self, out: &mut String, _c: bool) {
		out.push_str(match self {
			IdxEnum::A => "V 10 L 0",
			IdxEnum::B => "V 20 L 0",
			IdxEnum::C => "V 2 L 0",
		});
	}
	fn gen(g: &mut G) -> Self {
		[IdxEnum::A, IdxEnum::B, IdxEnum::C][g.rng.below(3) as usize]
	}
	fn min_len() -> usize {
		1
	}
}

/// A user-defined wrapper that relies on the PROVIDED `WrapperTypeDecode::decode_wrapped`
/// (`descend_ref`, decode the wrapped type, `ascend_ref`, `into`) and on `WrapperTypeEncode`:
/// stored inline. To the model: `wrap T` (a nesting level, no heap announcement).
#[derive(PartialEq, Eq, Debug, Clone)]
pub struct UserWrap<T>(pub T);
impl<T> From<T> for UserWrap<T> {
	fn from(t: T) -> Self {
		UserWrap(t)
	}
}
impl<T> core::ops::Deref for UserWrap<T> {
	type Target = T;
	fn deref(&self) -> &T {
		&self.0
	}
}
impl<T> parity_scale_codec::WrapperTypeEncode for UserWrap<T> {}
impl<T> parity_scale_codec::WrapperTypeDecode for UserWrap<T> {
	type Wrapped = T;
}
impl<T: DecodeWithMemTracking> DecodeWithMemTracking for UserWrap<T> {}
impl<T: Modeled> Modeled for UserWrap<T> {
	fn ty(d: usize) -> String {
		format!("wrap {}", T::ty(d))
	}
	fn val(&self, out: &mut String, c: bool) {
		self.0.val(out, c)
	}
	fn gen(g: &mut G) -> Self {
		UserWrap(T::gen(g))
	}
	fn min_len() -> usize {
		T::min_len()
	}
}

/// A reference-like user wrapper (`Rc` inside) whose wrapped type is exactly pointer-sized, and
/// the recursive type built with it: recursion through it must be limited like through `Box`.
#[derive(PartialEq, Eq, Debug, Clone)]
pub struct SharedNode(pub std::rc::Rc<UNode>);
#[derive(Encode, Decode, DecodeWithMemTracking, PartialEq, Eq, Debug, Clone)]
pub struct UNode {
	pub next: Option<SharedNode>,
}
impl From<UNode> for SharedNode {
	fn from(n: UNode) -> Self {
		SharedNode(std::rc::Rc::new(n))
	}
}
impl core::ops::Deref for SharedNode {
	type Target = UNode;
	fn deref(&self) -> &UNode {
		&self.0
	}
}
impl parity_scale_codec::WrapperTypeEncode for SharedNode {}
impl parity_scale_codec::WrapperTypeDecode for SharedNode {
	type Wrapped = UNode;
}
impl DecodeWithMemTracking for SharedNode {}
impl Modeled for UNode {
	fn ty(d: usize) -> String {
		if d == 0 {
			"enum 0".into()
		} else {
			format!("tup 1 opt wrap {}", UNode::ty(d - 1))
		}
	}
	fn val(&self, out: &mut String, c: bool) {
		out.push_str("L 1 ");
		match &self.next {
			None => out.push('N'),
			Some(n) => {
				out.push_str("S ");
				n.0.val(out, c)
			},
		}
	}
	fn gen(g: &mut G) -> Self {
		if g.depth == 0 || g.rng.chance(1, 3) {
			UNode { next: None }
		} else {
			g.depth -= 1;
			let t = UNode::gen(g);
			g.depth += 1;
			UNode { next: Some(SharedNode(std::rc::Rc::new(t))) }
		}
	}
	fn min_len() -> usize {
		1
	}
}

/// A hand-written `CompactAs` whose `decode_from` can fail (a percentage): `Compact<Percent>` and
/// `#[codec(compact)] Percent` reject well-formed compact numbers above 100 - in `decode`, in
/// `skip` and in every derived type. (No model descriptor: implementation-side oracles only.)
#[derive(PartialEq, Eq, Debug, Clone, Copy, Encode, Decode)]
pub struct Percent(pub u8);
impl CompactAs for Percent {
	type As = u8;
	fn encode_as(&self) -> &u8 {
		&self.0
	}
	fn decode_from(x: u8) -> Result<Self, parity_scale_codec::Error> {
		if x <= 100 {
			Ok(Percent(x))
		} else {
			Err("more than 100 percent".into())
		}
	}
}
impl From<Compact<Percent>> for Percent {
	fn from(c: Compact<Percent>) -> Self {
		c.0
	}
}
#[derive(PartialEq, Eq, Debug, Clone, Encode, Decode)]
pub struct UsesPercent {
	pub tag: u8,
	#[codec(compact)]
	pub share: Percent,
	pub rest: u16,
}
impl Modeled for SharedNode {
	fn ty(d: usize) -> String {
		format!("wrap {}", UNode::ty(d))
	}
	fn val(&self, out: &mut String, c: bool) {
		self.0.val(out, c)
	}
	fn gen(g: &mut G) -> Self {
		SharedNode(std::rc::Rc::new(UNode::gen(g)))
	}
	fn min_len() -> usize {
		1
	}
}

// ---------------------------------------------------------------------------------------------
// Round 5
// ---------------------------------------------------------------------------------------------

/// Derived struct / enum whose LAST fields occupy memory but encode to nothing: at the tail of
/// the input fewer bytes remain than there are fields to decode.
#[derive(Encode, Decode, DecodeWithMemTracking, PartialEq, Debug, Clone)]
pub struct TailEmpty {
	pub id: u8,
	pub cache: AllSkipped,
	pub b: Box<()>,
	pub more: (AllSkipped, Box<()>),
}
impl Modeled for TailEmpty {
	fn ty(d: usize) -> String {
		format!("tup 4 u8 {} box 0 unit tup 2 {} box 0 unit", AllSkipped::ty(d), AllSkipped::ty(d))
	}
	fn val(&self, out: &mut String, c: bool) {
		write!(out, "L 4 n{} ", self.id).unwrap();
		self.cache.val(out, c);
		out.push_str(" U L 2 ");
		self.more.0.val(out, c);
		out.push_str(" U");
	}
	fn gen(g: &mut G) -> Self {
		TailEmpty { id: u8::gen(g), cache: AllSkipped::gen(g), b: Box::new(()), more: (AllSkipped::gen(g), Box::new(())) }
	}
	fn min_len() -> usize {
		1
	}
}
#[derive(Encode, Decode, DecodeWithMemTracking, PartialEq, Debug, Clone)]
pub enum TailEmptyE {
	#[codec(index = 3)]
	Stats(AllSkipped),
	Other(u8),
	Both { a: Box<()>, c: AllSkipped },
}
impl Modeled for TailEmptyE {
	fn ty(d: usize) -> String {
		format!("enum 3 3 tup 1 {} 1 tup 1 u8 2 tup 2 box 0 unit {}", AllSkipped::ty(d), AllSkipped::ty(d))
	}
	fn val(&self, out: &mut String, c: bool) {
		match self {
			TailEmptyE::Stats(s) => {
				out.push_str("V 3 L 1 ");
				s.val(out, c)
			},
			TailEmptyE::Other(b) => write!(out, "V 1 L 1 n{}", b).unwrap(),
			TailEmptyE::Both { c: cc, .. } => {
				out.push_str("V 2 L 2 U ");
				cc.val(out, c)
			},
		}
	}
	fn gen(g: &mut G) -> Self {
		match g.rng.below(3) {
			0 => TailEmptyE::Stats(AllSkipped::gen(g)),
			1 => TailEmptyE::Other(u8::gen(g)),
			_ => TailEmptyE::Both { a: Box::new(()), c: AllSkipped::gen(g) },
		}
	}
	fn min_len() -> usize {
		1
	}
}

/// `repr(transparent)` newtype over a megabyte array: decoded in place behind holders.
#[derive(Encode, Decode)]
#[repr(transparent)]
pub struct TransBig(pub [u8; 1 << 20]);

/// Attributes written with a trailing comma (`#[codec(skip,)]`, as in `#[derive(A, B,)]`): accepted
/// by the derive's attribute check, so they must be honoured (finding F8: they were ignored).
#[derive(Encode, Decode, DecodeWithMemTracking, MaxEncodedLen, PartialEq, Debug, Clone)]
pub struct TrailingComma {
	#[codec(skip,)]
	pub a: u32,
	#[codec(compact,)]
	pub b: u32,
	#[codec(encoded_as = "Compact<u64>",)]
	pub c: u64,
	pub d: u8,
}
impl Modeled for TrailingComma {
	fn ty(_d: usize) -> String {
		"tup 3 c 4 c 8 u8".into()
	}
	fn val(&self, out: &mut String, _c: bool) {
		write!(out, "L 3 n{} n{} n{}", self.b, self.c, self.d).unwrap();
	}
	fn gen(g: &mut G) -> Self {
		TrailingComma { a: 0, b: u32::gen(g), c: u64::gen(g), d: u8::gen(g) }
	}
	fn min_len() -> usize {
		3
	}
}
#[derive(Encode, Decode, DecodeWithMemTracking, MaxEncodedLen, PartialEq, Debug, Clone)]
pub enum TrailingCommaE {
	#[codec(index = 5,)]
	A,
	#[codec(skip,)]
	B,
	C(#[codec(compact,)] u16),
}
impl Modeled for TrailingCommaE {
	fn ty(_d: usize) -> String {
		"enum 2 5 tup 0 1 tup 1 c 2".into()
	}
	fn val(&self, out: &mut String, _c: bool) {
		match self {
			TrailingCommaE::A => out.push_str("V 5 L 0"),
			TrailingCommaE::B => out.push('K'),
			TrailingCommaE::C(x) => write!(out, "V 1 L 1 n{}", x).unwrap(),
		}
	}
	fn gen(g: &mut G) -> Self {
		if g.rng.chance(1, 2) {
			TrailingCommaE::A
		} else {
			TrailingCommaE::C(u16::gen(g))
		}
	}
	fn min_len() -> usize {
		1
	}
}

// ---------------------------------------------------------------------------------------------
// Round 6
// ---------------------------------------------------------------------------------------------

/// `index` attributes spelled with a radix prefix, a type suffix, digit separators.
#[derive(Encode, Decode, DecodeWithMemTracking, MaxEncodedLen, PartialEq, Eq, Debug, Clone, Copy)]
pub enum LitIndex {
	#[codec(index = 0x10)]
	A,
	#[codec(index = 0b11)]
	B,
	#[codec(index = 7u8)]
	C,
	#[codec(index = 1_0)]
	D,
	#[codec(index = 0o17)]
	E(u8),
}
impl Modeled for LitIndex {
	fn ty(_d: usize) -> String {
		"enum 5 16 tup 0 3 tup 0 7 tup 0 10 tup 0 15 tup 1 u8".into()
	}
	fn val(&self, out: &mut String, _c: bool) {
		match self {
			LitIndex::A => out.push_str("V 16 L 0"),
			LitIndex::B => out.push_str("V 3 L 0"),
			LitIndex::C => out.push_str("V 7 L 0"),
			LitIndex::D => out.push_str("V 10 L 0"),
			LitIndex::E(x) => write!(out, "V 15 L 1 n{}", x).unwrap(),
		}
	}
	fn gen(g: &mut G) -> Self {
		match g.rng.below(5) {
			0 => LitIndex::A,
			1 => LitIndex::B,
			2 => LitIndex::C,
			3 => LitIndex::D,
			_ => LitIndex::E(u8::gen(g)),
		}
	}
	fn min_len() -> usize {
		1
	}
}

/// `encoded_as` naming a type that is not a path (an array, a tuple), through user-written
/// `EncodeAsRef` impls: a port number stored in network byte order, a span as two compacts.
#[derive(PartialEq, Eq, Debug, Clone, Copy, Encode, Decode)]
pub struct Port(pub u16);
impl<'a> From<&'a Port> for [u8; 2] {
	fn from(p: &'a Port) -> [u8; 2] {
		p.0.to_be_bytes()
	}
}
impl From<[u8; 2]> for Port {
	fn from(b: [u8; 2]) -> Port {
		Port(u16::from_be_bytes(b))
	}
}
impl<'a> parity_scale_codec::EncodeAsRef<'a, Port> for [u8; 2] {
	type RefType = [u8; 2];
}
#[derive(PartialEq, Eq, Debug, Clone, Copy, Encode, Decode)]
pub struct Span(pub u32, pub u32);
impl<'a> From<&'a Span> for (Compact<u32>, Compact<u32>) {
	fn from(s: &'a Span) -> Self {
		(Compact(s.0), Compact(s.1))
	}
}
impl From<(Compact<u32>, Compact<u32>)> for Span {
	fn from(t: (Compact<u32>, Compact<u32>)) -> Span {
		Span((t.0).0, (t.1).0)
	}
}
impl<'a> parity_scale_codec::EncodeAsRef<'a, Span> for (Compact<u32>, Compact<u32>) {
	type RefType = (Compact<u32>, Compact<u32>);
}
#[derive(Encode, Decode, PartialEq, Eq, Debug, Clone)]
pub struct NonPathAs {
	pub tag: u8,
	#[codec(encoded_as = "[u8; 2]")]
	pub port: Port,
	#[codec(encoded_as = "(Compact<u32>, Compact<u32>)")]
	pub span: Span,
}
impl Modeled for NonPathAs {
	fn ty(_d: usize) -> String {
		"tup 3 u8 arr 2 u8 tup 2 c 4 c 4".into()
	}
	fn val(&self, out: &mut String, _c: bool) {
		let b = self.port.0.to_be_bytes();
		write!(out, "L 3 n{} L 2 n{} n{} L 2 n{} n{}", self.tag, b[0], b[1], self.span.0, self.span.1).unwrap();
	}
	fn gen(g: &mut G) -> Self {
		NonPathAs { tag: u8::gen(g), port: Port(u16::gen(g)), span: Span(u32::gen(g), u32::gen(g)) }
	}
	fn min_len() -> usize {
		5
	}
}
#[derive(Encode, Decode, PartialEq, Eq, Debug, Clone)]
pub struct SingleNonPathAs(#[codec(encoded_as = "[u8; 2]")] pub Port);
impl Modeled for SingleNonPathAs {
	fn ty(_d: usize) -> String {
		"tup 1 arr 2 u8".into()
	}
	fn val(&self, out: &mut String, _c: bool) {
		let b = (self.0).0.to_be_bytes();
		write!(out, "L 1 L 2 n{} n{}", b[0], b[1]).unwrap();
	}
	fn gen(g: &mut G) -> Self {
		SingleNonPathAs(Port(u16::gen(g)))
	}
	fn min_len() -> usize {
		2
	}
}

/// A derived struct holding a derived enum that may sit in a skipped variant.
#[derive(Encode, PartialEq, Debug, Clone)]
pub struct HoldsSkippable {
	pub a: u8,
	pub e: Mixed,
	pub b: u16,
}

// ---------------------------------------------------------------------------------------------
// Round 7
// ---------------------------------------------------------------------------------------------

/// Records with more than 16 encodable fields (and a number that is not a multiple of 16).
#[derive(Encode, Decode, DecodeWithMemTracking, MaxEncodedLen, PartialEq, Debug, Clone)]
pub struct Wide17 {
	pub f0: u8, pub f1: u8, pub f2: u8, pub f3: u8, pub f4: u8, pub f5: u8, pub f6: u8, pub f7: u8,
	pub f8: u8, pub f9: u8, pub f10: u8, pub f11: u8, pub f12: u8, pub f13: u8, pub f14: u8, pub f15: u8,
	pub f16: u16,
}
impl Modeled for Wide17 {
	fn ty(_d: usize) -> String {
		format!("tup 17{} u16", " u8".repeat(16))
	}
	fn val(&self, out: &mut String, _c: bool) {
		let f = [self.f0, self.f1, self.f2, self.f3, self.f4, self.f5, self.f6, self.f7, self.f8, self.f9, self.f10, self.f11, self.f12, self.f13, self.f14, self.f15];
		out.push_str("L 17");
		for x in f {
			write!(out, " n{}", x).unwrap();
		}
		write!(out, " n{}", self.f16).unwrap();
	}
	fn gen(g: &mut G) -> Self {
		let mut b = [0u8; 16];
		for x in b.iter_mut() {
			*x = u8::gen(g);
		}
		Wide17 { f0: b[0], f1: b[1], f2: b[2], f3: b[3], f4: b[4], f5: b[5], f6: b[6], f7: b[7], f8: b[8], f9: b[9], f10: b[10], f11: b[11], f12: b[12], f13: b[13], f14: b[14], f15: b[15], f16: u16::gen(g) }
	}
	fn min_len() -> usize {
		18
	}
}
#[derive(Encode, Decode, DecodeWithMemTracking, MaxEncodedLen, PartialEq, Debug, Clone)]
pub enum WideVariant {
	Small(u8),
	Wide(u8, u8, u8, u8, u8, u8, u8, u8, u8, u8, u8, u8, u8, u8, u8, u8, #[codec(skip)] u32, #[codec(compact)] u32, u64, Option<u16>),
}
impl Modeled for WideVariant {
	fn ty(_d: usize) -> String {
		format!("enum 2 0 tup 1 u8 1 tup 19{} c 4 u64 opt u16", " u8".repeat(16))
	}
	fn val(&self, out: &mut String, c: bool) {
		match self {
			WideVariant::Small(x) => write!(out, "V 0 L 1 n{}", x).unwrap(),
			WideVariant::Wide(a0, a1, a2, a3, a4, a5, a6, a7, a8, a9, a10, a11, a12, a13, a14, a15, _s, cc, w, o) => {
				out.push_str("V 1 L 19");
				for x in [a0, a1, a2, a3, a4, a5, a6, a7, a8, a9, a10, a11, a12, a13, a14, a15] {
					write!(out, " n{}", x).unwrap();
				}
				write!(out, " n{} n{} ", cc, w).unwrap();
				o.val(out, c);
			},
		}
	}
	fn gen(g: &mut G) -> Self {
		if g.rng.chance(1, 3) {
			WideVariant::Small(u8::gen(g))
		} else {
			let mut b = [0u8; 16];
			for x in b.iter_mut() {
				*x = u8::gen(g);
			}
			WideVariant::Wide(b[0], b[1], b[2], b[3], b[4], b[5], b[6], b[7], b[8], b[9], b[10], b[11], b[12], b[13], b[14], b[15], 0, u32::gen(g), u64::gen(g), Option::gen(g))
		}
	}
	fn min_len() -> usize {
		2
	}
}
