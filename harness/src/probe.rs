//! Compile-time trait probes: whether a concrete catalogue type implements a marker trait is
//! observed with the inherent-item-shadows-trait-item trick, turning the crate's trait tables into
//! run-time data without parsing Rust source. Only valid at call sites with concrete types.

use core::marker::PhantomData;
use parity_scale_codec::{ConstEncodedLen, MaxEncodedLen};

pub struct Probe<T>(PhantomData<T>);

pub trait Fallback {
	const IS_CEL: bool = false;
	const IS_DWMT: bool = false;
	fn mel() -> Option<usize> {
		None
	}
}
impl<T> Fallback for Probe<T> {}

impl<T: MaxEncodedLen> Probe<T> {
	pub fn mel() -> Option<usize> {
		Some(T::max_encoded_len())
	}
}
impl<T: ConstEncodedLen> Probe<T> {
	pub const IS_CEL: bool = true;
}
impl<T: parity_scale_codec::DecodeWithMemTracking> Probe<T> {
	pub const IS_DWMT: bool = true;
}
