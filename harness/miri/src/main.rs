//! Run with `cargo +nightly miri run --offline`. Prints `CASE <name>` before each case; a Miri
//! error therefore points at the last case printed. Exit code 0 and a final `MIRI-OK <n>` line
//! mean every case ran clean.
use parity_scale_codec::{Decode, DecodeLimit, DecodeWithMemLimit, DecodeWithMemTracking, Encode, Error, Input};
use std::cell::Cell;
use std::collections::{BTreeMap, LinkedList, VecDeque};
use std::marker::PhantomData;
use std::panic::{catch_unwind, AssertUnwindSafe};
use std::rc::Rc;
use std::sync::Arc;

thread_local! {
	static MADE: Cell<u32> = Cell::new(0);
	static GONE: Cell<u32> = Cell::new(0);
}

/// Element with a heap allocation of its own (a leak or double free is visible to Miri) whose
/// decoder is scripted by one input byte: 0 construct, 1 malformed, 2 panic.
#[derive(Debug, PartialEq, Eq, PartialOrd, Ord)]
pub struct TrP<const FIXED: bool> {
	id: u32,
	heap: Box<u32>,
}
pub type Tr = TrP<false>;
/// the same element, reporting `encoded_fixed_size() == Some(1)`
pub type TrF = TrP<true>;
impl<const FIXED: bool> Drop for TrP<FIXED> {
	fn drop(&mut self) {
		assert_eq!(*self.heap, self.id ^ 0x5a5a, "element dropped with a corrupted payload");
		GONE.with(|g| g.set(g.get() + 1));
	}
}
impl<const FIXED: bool> Decode for TrP<FIXED> {
	fn decode<I: Input>(input: &mut I) -> Result<Self, Error> {
		match input.read_byte()? {
			0 => {
				let id = MADE.with(|m| {
					m.set(m.get() + 1);
					m.get()
				});
				Ok(TrP { id, heap: Box::new(id ^ 0x5a5a) })
			},
			1 => Err("malformed element".into()),
			_ => panic!("scripted panic in an element decoder"),
		}
	}
	fn encoded_fixed_size() -> Option<usize> {
		if FIXED {
			Some(1)
		} else {
			None
		}
	}
}
impl<const FIXED: bool> DecodeWithMemTracking for TrP<FIXED> {}
impl<const FIXED: bool> Default for TrP<FIXED> {
	fn default() -> Self {
		let id = MADE.with(|m| {
			m.set(m.get() + 1);
			m.get()
		});
		TrP { id, heap: Box::new(id ^ 0x5a5a) }
	}
}

#[derive(Decode)]
#[repr(transparent)]
pub struct TransArr<const N: usize>([Tr; N]);
/// the skipped field is the only non-zero-sized one: it must come back as `Default`
#[derive(Decode)]
#[repr(transparent)]
pub struct TransSkipMain(#[codec(skip)] Tr, PhantomData<u8>);
#[derive(Decode)]
#[repr(transparent)]
pub struct TransSkipVec(#[codec(skip)] Vec<u32>, PhantomData<u8>);
#[derive(Decode)]
#[repr(transparent)]
pub struct TransWithMarker(Tr, Unit);
#[derive(Decode)]
#[repr(transparent)]
pub struct TransTwoMarkers(Tr, Unit, Unit);
/// `repr(C)` struct with a skipped field whose `Default` owns heap memory, between decoded fields
#[derive(Default)]
pub struct ScratchBuf(Box<u64>, Vec<u8>);
#[derive(Decode)]
#[repr(C)]
pub struct ReprCSkip {
	a: Tr,
	#[codec(skip)]
	s: ScratchBuf,
	b: Tr,
}
#[derive(Decode)]
#[repr(transparent)]
pub struct TransMid(Unit, PhantomData<u16>, Tr, Unit, Unit);
#[derive(Decode, Encode)]
pub enum Unit {
	#[codec(index = 9)]
	Only,
}
#[derive(Decode)]
pub struct Composite {
	a: Tr,
	b: [Tr; 2],
	#[codec(skip)]
	s: Option<Tr>,
	c: Vec<Tr>,
	d: Box<Tr>,
}
#[derive(Decode)]
pub enum CompositeEnum {
	A(Tr, Tr),
	B { x: [Tr; 2], y: Option<Tr> },
}

fn script(n: usize, k: usize, kind: u8, prefix: &[u8]) -> Vec<u8> {
	// kind: 0 none, 1 malformed at k, 2 panic at k, 3 exhausted at k
	let mut v = prefix.to_vec();
	for i in 0..n {
		if i == k && kind == 3 {
			break;
		}
		v.push(if i == k { kind.min(2) } else { 0 });
	}
	v
}

fn observe<T>(name: &str, f: impl FnOnce() -> Result<T, Error>) {
	println!("CASE {}", name);
	let m0 = MADE.with(|m| m.get());
	let g0 = GONE.with(|g| g.get());
	let r = catch_unwind(AssertUnwindSafe(|| f().ok()));
	drop(r);
	let made = MADE.with(|m| m.get()) - m0;
	let gone = GONE.with(|g| g.get()) - g0;
	assert_eq!(made, gone, "{}: {} elements constructed but {} dropped", name, made, gone);
}

static mut CASES: u32 = 0;

macro_rules! grid {
	($label:expr, $n:expr, $prefix:expr, $dec:expr) => {{
		let n: usize = $n;
		observe(&format!("{} n={} ok", $label, n), || $dec(&script(n, n, 0, $prefix)));
		unsafe { CASES += 1 };
		for k in 0..n {
			for kind in 1..=3u8 {
				observe(&format!("{} n={} k={} kind={}", $label, n, k, kind), || $dec(&script(n, k, kind, $prefix)));
				unsafe { CASES += 1 };
			}
		}
	}};
}

fn arrays<const N: usize>() {
	grid!("[Tr; N]", N, &[], |bs: &[u8]| <[Tr; N]>::decode(&mut &bs[..]));
	grid!("Box<[Tr; N]>", N, &[], |bs: &[u8]| <Box<[Tr; N]>>::decode(&mut &bs[..]));
	grid!("Rc<[Tr; N]>", N, &[], |bs: &[u8]| <Rc<[Tr; N]>>::decode(&mut &bs[..]));
	grid!("Arc<[Tr; N]>", N, &[], |bs: &[u8]| <Arc<[Tr; N]>>::decode(&mut &bs[..]));
	grid!("TransArr<N>", N, &[], |bs: &[u8]| <TransArr<N>>::decode(&mut &bs[..]));
	grid!("Box<TransArr<N>>", N, &[], |bs: &[u8]| <Box<TransArr<N>>>::decode(&mut &bs[..]));
	grid!("[Box<Tr>; N]", N, &[], |bs: &[u8]| <[Box<Tr>; N]>::decode(&mut &bs[..]));
	grid!("[TrF; N] (fixed-size elements)", N, &[], |bs: &[u8]| <[TrF; N]>::decode(&mut &bs[..]));
	grid!("Box<[[TrF; 2]; N]>", 2 * N, &[], |bs: &[u8]| <Box<[[TrF; 2]; N]>>::decode(&mut &bs[..]));
	grid!("Arc<[TrF; N]>", N, &[], |bs: &[u8]| <Arc<[TrF; N]>>::decode(&mut &bs[..]));
	grid!("[[Tr; 2]; N]", 2 * N, &[], |bs: &[u8]| <[[Tr; 2]; N]>::decode(&mut &bs[..]));
	grid!("Box<[Rc<Tr>; N]>", N, &[], |bs: &[u8]| <Box<[Rc<Tr>; N]>>::decode(&mut &bs[..]));
	// a memory limit hit at every box of an array of boxes; a depth limit at the holders
	for k in 0..=N {
		let bs = script(N, N, 0, &[]);
		observe(&format!("[Box<Tr>; N] n={} mem-limit at {}", N, k), || {
			<[Box<Tr>; N]>::decode_with_mem_limit(&mut &bs[..], k * core::mem::size_of::<Tr>() + 1)
		});
		unsafe { CASES += 1 };
	}
	for l in 0..3u32 {
		let bs = script(N, N, 0, &[]);
		observe(&format!("Box<[Box<Tr>; N]> n={} depth-limit {}", N, l), || <Box<[Box<Tr>; N]>>::decode_with_depth_limit(l, &mut &bs[..]));
		unsafe { CASES += 1 };
	}
}

/// The remaining `unsafe` sites: the transmuting bulk encoder, the bulk array/vector readers
/// (`set_len` before `read`, `Vec<$ty>` -> `Vec<T>` transmute), the fixed-capacity compact buffer,
/// the zero-copy shared buffer - round trips, short inputs, and lengths crossing a 16 KiB chunk.
fn unsafe_paths() {
	use parity_scale_codec::{Compact, CompactLen, EncodeAppend};
	fn rt<T: Encode + Decode + PartialEq + std::fmt::Debug>(name: &str, v: T) {
		println!("CASE roundtrip {}", name);
		let bytes = v.encode();
		assert_eq!(v.using_encoded(|s| s.to_vec()), bytes, "{}", name);
		assert_eq!(v.encoded_size(), bytes.len(), "{}", name);
		let mut s = &bytes[..];
		assert_eq!(T::decode(&mut s).ok().as_ref(), Some(&v), "{}", name);
		assert!(s.is_empty(), "{}", name);
		// through a reader of unknown length, and truncated
		let mut io = parity_scale_codec::IoReader(std::io::Cursor::new(&bytes[..]));
		assert_eq!(T::decode(&mut io).ok().as_ref(), Some(&v), "{} (IoReader)", name);
		if !bytes.is_empty() {
			assert!(T::decode(&mut &bytes[..bytes.len() - 1]).is_err(), "{} truncated", name);
			let mut io = parity_scale_codec::IoReader(std::io::Cursor::new(&bytes[..bytes.len() - 1]));
			assert!(T::decode(&mut io).is_err(), "{} truncated (IoReader)", name);
		}
		unsafe { CASES += 1 };
	}
	macro_rules! prims {
		($($t:ty),*) => {$(
			let chunk = 16384 / core::mem::size_of::<$t>();
			rt(concat!("Vec<", stringify!($t), "> small"), (0..7).map(|i| (i * 37) as $t).collect::<Vec<$t>>());
			if cfg!(feature = "full") && core::mem::size_of::<$t>() >= 8 {
				rt(concat!("Vec<", stringify!($t), "> across a chunk"), (0..chunk + 3).map(|i| (i % 251) as $t).collect::<Vec<$t>>());
			}
			let _ = chunk;
			rt(concat!("[", stringify!($t), "; 5]"), [1 as $t, 2 as $t, 3 as $t, 4 as $t, 5 as $t]);
			rt(concat!("Box<[", stringify!($t), "; 3]>"), Box::new([9 as $t, 8 as $t, 7 as $t]));
			{
				let mut dq: VecDeque<$t> = VecDeque::with_capacity(8);
				for i in 0..6 { dq.push_back(i as $t); }
				for _ in 0..4 { dq.pop_front(); }
				for i in 0..5 { dq.push_back((i + 10) as $t); }
				rt(concat!("VecDeque<", stringify!($t), "> wrapped"), dq);
			}
			rt(concat!("(u8, Vec<", stringify!($t), ">) misaligned start"), (7u8, vec![1 as $t, 2 as $t, 3 as $t]));
		)*};
	}
	prims!(u8, i8, u16, i16, u32, i32, u64, i64, u128, i128, f32, f64);
	for x in [0u128, 63, 64, 16383, 16384, (1 << 30) - 1, 1 << 30, u32::MAX as u128, 1 << 32, u64::MAX as u128, 1 << 64, 1 << 72, u128::MAX] {
		println!("CASE compact {}", x);
		if x <= u8::MAX as u128 { rt("Compact<u8>", Compact(x as u8)); }
		if x <= u16::MAX as u128 { rt("Compact<u16>", Compact(x as u16)); }
		if x <= u32::MAX as u128 { rt("Compact<u32>", Compact(x as u32)); }
		if x <= u64::MAX as u128 { rt("Compact<u64>", Compact(x as u64)); }
		rt("Compact<u128>", Compact(x));
		assert_eq!(Compact::<u128>::compact_len(&x), Compact(x).encode().len());
	}
	rt("String", String::from("héllo wörld €"));
	if cfg!(feature = "full") {
		rt("String across a chunk", "aé".repeat(5500));
	}
	rt("Vec<String>", vec![String::from("a"), String::new(), String::from("ccc")]);
	rt("Vec<Option<Box<u16>>>", vec![Some(Box::new(5u16)), None, Some(Box::new(7))]);
	rt("BTreeMap<u8, Vec<u32>>", [(1u8, vec![1u32, 2]), (2, vec![])].into_iter().collect::<BTreeMap<_, _>>());
	{
		use bitvec::prelude::*;
		let mut bv = BitVec::<u8, Lsb0>::new();
		for i in 0..21 { bv.push(i % 3 == 0); }
		rt("BitVec<u8, Lsb0>", bv.clone());
		rt("BitVec<u8, Lsb0> tail", BitVec::<u8, Lsb0>::from_bitslice(&bv[3..]));
		let mut bw = BitVec::<u64, Msb0>::new();
		for i in 0..131 { bw.push(i % 5 == 0); }
		rt("BitVec<u64, Msb0>", bw.clone());
		rt("BitBox<u64, Msb0> tail", BitBox::<u64, Msb0>::from_bitslice(&bw[7..]));
		if cfg!(feature = "full") {
			rt("BitVec<u64, Lsb0> across a chunk", BitVec::<u64, Lsb0>::repeat(true, 16384 * 8 + 40));
		}
	}
	{
		println!("CASE shared buffer");
		let v = (3u8, bytes::Bytes::from(vec![1u8, 2, 3]), bytes::Bytes::new(), 9u16);
		let enc = v.encode();
		let d: (u8, bytes::Bytes, bytes::Bytes, u16) = parity_scale_codec::decode_from_bytes(bytes::Bytes::from(enc.clone())).unwrap();
		assert_eq!(d, v);
		assert!(parity_scale_codec::decode_from_bytes::<(u8, bytes::Bytes, bytes::Bytes, u16)>(bytes::Bytes::from(enc[..enc.len() - 1].to_vec())).is_err());
		assert!(parity_scale_codec::decode_from_bytes::<(u8, bytes::Bytes)>(bytes::Bytes::from(vec![3u8, 16, 1, 2])).is_err());
		unsafe { CASES += 1 };
	}
	{
		println!("CASE append");
		let mut enc = Vec::<u32>::new().encode();
		let mut all = vec![];
		for batch in [vec![1u32, 2], vec![], (0..70).collect::<Vec<u32>>(), vec![9]] {
			enc = <Vec<u32> as EncodeAppend>::append_or_new(enc, &batch).unwrap();
			all.extend(batch);
			assert_eq!(enc, all.encode());
		}
		assert!(<Vec<u32> as EncodeAppend>::append_or_new(vec![0xff, 0xff], &[1u32]).is_err());
		unsafe { CASES += 1 };
	}
}

fn main() {
	arrays::<0>();
	arrays::<1>();
	arrays::<2>();
	arrays::<5>();
	for n in [0usize, 1, 3, 6] {
		let p = [(n as u8) << 2];
		grid!("Vec<Tr>", n, &p, |bs: &[u8]| <Vec<Tr>>::decode(&mut &bs[..]));
		grid!("VecDeque<Tr>", n, &p, |bs: &[u8]| <VecDeque<Tr>>::decode(&mut &bs[..]));
		grid!("LinkedList<Tr>", n, &p, |bs: &[u8]| <LinkedList<Tr>>::decode(&mut &bs[..]));
		grid!("Vec<Box<Tr>>", n, &p, |bs: &[u8]| <Vec<Box<Tr>>>::decode(&mut &bs[..]));
		grid!("Box<Vec<Tr>>", n, &p, |bs: &[u8]| <Box<Vec<Tr>>>::decode(&mut &bs[..]));
		grid!("Vec<Arc<Tr>>", n, &p, |bs: &[u8]| <Vec<Arc<Tr>>>::decode(&mut &bs[..]));
		grid!("BTreeMap<Tr, Tr>", 2 * n, &p, |bs: &[u8]| <BTreeMap<Tr, Tr>>::decode(&mut &bs[..]));
		for l in 0..3u32 {
			let bs = script(n, n, 0, &p);
			observe(&format!("Vec<Box<Tr>> n={} depth-limit {}", n, l), || <Vec<Box<Tr>>>::decode_with_depth_limit(l, &mut &bs[..]));
			unsafe { CASES += 1 };
		}
	}
	{
		use generic_array::{typenum, GenericArray};
		grid!("GenericArray<Tr, U1>", 1, &[], |bs: &[u8]| <GenericArray<Tr, typenum::U1>>::decode(&mut &bs[..]));
		grid!("GenericArray<Tr, U4>", 4, &[], |bs: &[u8]| <GenericArray<Tr, typenum::U4>>::decode(&mut &bs[..]));
		grid!("Box<GenericArray<Tr, U3>>", 3, &[], |bs: &[u8]| <Box<GenericArray<Tr, typenum::U3>>>::decode(&mut &bs[..]));
	}
	grid!("Option<Tr>", 1, &[1], |bs: &[u8]| <Option<Tr>>::decode(&mut &bs[..]));
	grid!("Result<Tr, Tr> (Err)", 1, &[1], |bs: &[u8]| <Result<Tr, Tr>>::decode(&mut &bs[..]));
	grid!("(Tr, Tr, Tr)", 3, &[], |bs: &[u8]| <(Tr, Tr, Tr)>::decode(&mut &bs[..]));
	grid!("Box<(Tr, Tr)>", 2, &[], |bs: &[u8]| <Box<(Tr, Tr)>>::decode(&mut &bs[..]));
	grid!("Rc<(Tr, [Tr; 2])>", 3, &[], |bs: &[u8]| <Rc<(Tr, [Tr; 2])>>::decode(&mut &bs[..]));
	grid!("CompositeEnum::A", 2, &[0], |bs: &[u8]| CompositeEnum::decode(&mut &bs[..]));
	// Composite { a, b: [_;2], s (skipped), c: Vec (2), d: Box }: 6 elements, the vector's count after the third
	grid!("Composite", 6, &[], |bs: &[u8]| {
		let mut v = vec![];
		for (i, b) in bs.iter().enumerate() {
			if i == 3 {
				v.push(2 << 2);
			}
			v.push(*b);
		}
		Composite::decode(&mut &v[..])
	});
	grid!("Box<Composite>", 6, &[], |bs: &[u8]| {
		let mut v = vec![];
		for (i, b) in bs.iter().enumerate() {
			if i == 3 {
				v.push(2 << 2);
			}
			v.push(*b);
		}
		<Box<Composite>>::decode(&mut &v[..])
	});
	// transparent newtypes through the in-place path: the decoded value must be fully initialised
	observe("Box<TransSkipMain> (skipped field is the payload)", || {
		let b = <Box<TransSkipMain>>::decode(&mut &[][..])?;
		assert_eq!(*b.0.heap, b.0.id ^ 0x5a5a);
		Ok(b)
	});
	observe("[TransSkipMain; 3]", || {
		let a = <[TransSkipMain; 3]>::decode(&mut &[][..])?;
		for x in &a {
			assert_eq!(*x.0.heap, x.0.id ^ 0x5a5a);
		}
		Ok(a)
	});
	observe("Rc<TransSkipVec>", || {
		let b = <Rc<TransSkipVec>>::decode(&mut &[][..])?;
		assert!(b.0.is_empty());
		Ok(b)
	});
	observe("Box<[TransSkipVec; 2]>", || {
		let b = <Box<[TransSkipVec; 2]>>::decode(&mut &[][..])?;
		assert!(b[0].0.is_empty() && b[1].0.capacity() == 0);
		Ok(b)
	});
	grid!("Box<TransWithMarker>", 1, &[], |bs: &[u8]| {
		let mut v = bs.to_vec();
		v.push(9);
		<Box<TransWithMarker>>::decode(&mut &v[..])
	});
	grid!("[TransWithMarker; 2]", 2, &[], |bs: &[u8]| {
		let mut v = vec![];
		for b in bs {
			v.push(*b);
			v.push(9);
		}
		<[TransWithMarker; 2]>::decode(&mut &v[..])
	});
	// the zero-sized field AFTER the payload is the one that fails: the payload must be released
	for (label, bytes) in [("bad marker", vec![0u8, 7]), ("missing marker", vec![0u8])] {
		let b1 = bytes.clone();
		observe(&format!("TransWithMarker {}", label), move || TransWithMarker::decode(&mut &b1[..]));
		let b2 = bytes.clone();
		observe(&format!("Box<TransWithMarker> {}", label), move || <Box<TransWithMarker>>::decode(&mut &b2[..]));
		let b3 = bytes.clone();
		observe(&format!("Rc<TransWithMarker> {}", label), move || <Rc<TransWithMarker>>::decode(&mut &b3[..]));
		let mut b4 = vec![0u8, 9];
		b4.extend_from_slice(&bytes);
		let b5 = b4.clone();
		observe(&format!("[TransWithMarker; 2] second {}", label), move || <[TransWithMarker; 2]>::decode(&mut &b4[..]));
		let mut b6 = vec![2u8 << 2];
		b6.extend_from_slice(&b5);
		observe(&format!("Vec<TransWithMarker> second {}", label), move || <Vec<TransWithMarker>>::decode(&mut &b6[..]));
		unsafe { CASES += 5 };
	}
	// ... and a LATER zero-sized field (not the one directly behind the payload)
	for (label, bytes) in [("second marker bad", vec![0u8, 9, 7]), ("second marker missing", vec![0u8, 9]), ("both fine", vec![0u8, 9, 9])] {
		let b1 = bytes.clone();
		observe(&format!("TransTwoMarkers {}", label), move || TransTwoMarkers::decode(&mut &b1[..]));
		let b2 = bytes.clone();
		observe(&format!("Box<TransTwoMarkers> {}", label), move || <Box<TransTwoMarkers>>::decode(&mut &b2[..]));
		let b3 = bytes.clone();
		observe(&format!("Arc<TransTwoMarkers> {}", label), move || <Arc<TransTwoMarkers>>::decode(&mut &b3[..]));
		let mut b4 = vec![0u8, 9, 9];
		b4.extend_from_slice(&bytes);
		observe(&format!("[TransTwoMarkers; 2] second {}", label), move || <[TransTwoMarkers; 2]>::decode(&mut &b4[..]));
		let mut b5 = vec![9u8];
		b5.extend_from_slice(&bytes);
		observe(&format!("Box<TransMid> {}", label), move || <Box<TransMid>>::decode(&mut &b5[..]));
		unsafe { CASES += 5 };
	}
	// a skipped field with a heap-owning default between two decoded fields, decoded behind holders
	for (label, bytes) in [("second field bad", vec![0u8, 1]), ("second field missing", vec![0u8]), ("second field panics", vec![0u8, 2]), ("fine", vec![0u8, 0])] {
		let b1 = bytes.clone();
		observe(&format!("ReprCSkip {}", label), move || ReprCSkip::decode(&mut &b1[..]));
		let b2 = bytes.clone();
		observe(&format!("Box<ReprCSkip> {}", label), move || <Box<ReprCSkip>>::decode(&mut &b2[..]));
		let b3 = bytes.clone();
		observe(&format!("Arc<ReprCSkip> {}", label), move || <Arc<ReprCSkip>>::decode(&mut &b3[..]));
		let mut b4 = vec![0u8, 0];
		b4.extend_from_slice(&bytes);
		observe(&format!("[ReprCSkip; 2] second {}", label), move || <[ReprCSkip; 2]>::decode(&mut &b4[..]));
		unsafe { CASES += 4 };
	}
	// shared holders of payloads above 16 KiB (Tr is 16 bytes: 1100 of them), damaged part-way
	#[cfg(feature = "full")]
	for (label, bad_at, tail) in [("malformed late", 1000usize, 1u8), ("panics late", 1090, 2), ("fine", 1100, 0)] {
		let mut bytes = vec![0u8; bad_at];
		bytes.push(tail);
		bytes.extend_from_slice(&[0u8; 8]);
		let b1 = bytes.clone();
		observe(&format!("Rc<[Tr; 1100]> {}", label), move || <Rc<[Tr; 1100]>>::decode(&mut &b1[..]));
		let b2 = bytes.clone();
		observe(&format!("Arc<[Tr; 1100]> {}", label), move || <Arc<[Tr; 1100]>>::decode(&mut &b2[..]));
		unsafe { CASES += 2 };
	}
	// an `Input` that reports success after filling only part of the buffer (a safe trait: the
	// decoder must not hand out memory nobody initialised, whatever the input does)
	{
		struct ShortFill;
		impl Input for ShortFill {
			fn remaining_len(&mut self) -> Result<Option<usize>, Error> {
				Ok(None)
			}
			fn read(&mut self, into: &mut [u8]) -> Result<(), Error> {
				let n = into.len() / 2;
				for b in &mut into[..n] {
					*b = 1;
				}
				Ok(())
			}
		}
		let a = <[u32; 1000]>::decode(&mut ShortFill).unwrap();
		let b = <Box<[u64; 700]>>::decode(&mut ShortFill).unwrap();
		let c = <Rc<[u8; 3000]>>::decode(&mut ShortFill).unwrap();
		let d = <Vec<u16>>::decode(&mut ShortFill);
		let mut sum = 0u64;
		for x in a.iter() {
			sum += *x as u64;
		}
		for x in b.iter() {
			sum = sum.wrapping_add(*x);
		}
		for x in c.iter() {
			sum += *x as u64;
		}
		if let Ok(d) = d {
			for x in d.iter() {
				sum += *x as u64;
			}
		}
		println!("CASE short-filling input sum={}", sum % 7);
		unsafe { CASES += 4 };
	}
	// zero-sized payloads behind holders
	observe("Box<()>", || <Box<()>>::decode(&mut &[][..]));
	observe("Vec<Box<()>>", || <Vec<Box<()>>>::decode(&mut &[3 << 2][..]));
	observe("Arc<[(); 7]>", || <Arc<[(); 7]>>::decode(&mut &[][..]));
	observe("Box<[u64; 4]> short", || <Box<[u64; 4]>>::decode(&mut &[1u8; 31][..]));
	observe("Vec<u32> bulk short", || <Vec<u32>>::decode(&mut &[8 << 2, 1, 2, 3, 4, 5][..]));
	observe("Vec<u16> bulk", || <Vec<u16>>::decode(&mut &[2 << 2, 1, 2, 3, 4][..]));
	observe("String", || String::decode(&mut &[3 << 2, b'a', 0xff, b'c'][..]));
	unsafe_paths();
	println!("MIRI-OK {}", unsafe { CASES });
}
