#!/bin/sh
# Build the framework from files on disk only (offline): Lean model + proofs + driver, Rust harness.
set -e
cd /verif/lean
lake build Scale Proofs Props scale_model
cd /verif/harness
cp /repo/Cargo.lock Cargo.lock
CARGO_NET_OFFLINE=true cargo build --release --offline
