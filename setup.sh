#!/bin/sh
# Build the framework from files on disk only (offline): Lean model + proofs + driver, Rust harness.
set -e
cd /verif/lean
lake build Scale Proofs Props scale_model
cd /verif/harness
cp /repo/Cargo.lock Cargo.lock
CARGO_NET_OFFLINE=true cargo build --release --offline
# C10's Miri stage: build the interpreter's copy of the crate once (skipped silently if the
# nightly Miri toolchain is not there; the check then notes it in the evidence)
cd /verif/harness/miri
cp /repo/Cargo.lock Cargo.lock
CARGO_NET_OFFLINE=true cargo +nightly miri run --offline > /dev/null 2>&1 || true
