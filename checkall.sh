#!/bin/sh
# run every registered quick check, print one line each (development aid; not registered)
cd /verif
for p in C01 C02 C03 C04 C05 C06 C07 C08 C09 C10 C11 C12 C13 C14 C15 C16 C17 C18 C19 C20; do
  out=$(./check $p --tier ${1:-quick} 2>&1); rc=$?
  echo "$p rc=$rc $(echo "$out" | grep -c '^VIOLATION') violations; $(echo "$out" | tail -1 | cut -c1-150)"
done
