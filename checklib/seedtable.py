#!/usr/bin/env python3
"""Generates /verif/seeded/README.md from the meta.json files written by seedtest.py."""
import json, glob, os, re
rows = []
for m in sorted(glob.glob("/verif/seeded/*/meta.json")):
    d = json.load(open(m))
    notes = os.path.join(os.path.dirname(m), "notes.md")
    title = ""
    if os.path.exists(notes):
        for l in open(notes):
            if l.startswith("#"):
                title = re.sub(r"^#+\s*(Mutation\s*\d+\s*[-—:]*\s*)?", "", l.strip())
                break
    files = ""
    p = os.path.join(os.path.dirname(m), "patch.diff")
    if os.path.exists(p):
        files = ", ".join(sorted(set(re.findall(r"^\+\+\+ b/(\S+)", open(p).read(), flags=re.M))))
    # meta.json also says what the change needs in order to manifest (taken from the author's notes)
    # and what was run
    needs = ""
    if os.path.exists(notes):
        txt = open(notes).read()
        mm = re.search(r"(?ims)^#+\s*[^\n]*(needed|needs|trigger|manifest|conjunction)[^\n]*\n(.*?)(?=^#+\s|\Z)", txt)
        if not mm:
            mm = re.search(r"(?ims)^\**\s*(what (it|is) need[^\n]*|conjunction needed[^\n]*|what triggers it[^\n]*|trigger[^\n]*)\**:?\**\s*\n?(.*?)(?=\n\s*\n\**[A-Z]|\n#+\s|\Z)", txt)
        needs = re.sub(r"\s+", " ", (mm.group(mm.lastindex) if mm else txt[:400])).strip()[:700]
    if d.get("needs_to_manifest") != needs or "ran" not in d:
        d["needs_to_manifest"] = needs
        d["ran"] = ("confirmed in a scratch worktree: demo.rs as tests/<name>.rs passes without patch.diff and fails with it; "
                    "`cargo test --workspace --no-fail-fast --offline` with the patch passes apart from the three UI tests that fail on the unchanged tree; "
                    "then `./check <id> --tier quick` for the registered checks with VERIF_REPO=<worktree> (frozen copies of harness and model): "
                    "verdicts and replay excerpts under `checks`")
        json.dump(d, open(m, "w"), indent=1)
    rows.append((d["id"], d["property"], title[:150], files, d.get("confirmed"), d.get("caught_by", []),
                 d.get("caught_by_target_property")))
out = ["# Seeded breaking changes and the checks that report them", "",
       "Each change was written by an independent sub-agent that was given only the text of one property",
       "and a scratch worktree. `confirmed` = applies, compiles, the existing suite still passes, its",
       "demonstration test fails with it and passes without. `reported by` = registered quick checks that",
       "exit 1 with a VIOLATION line when run against the worktree with the change applied",
       "(`checklib/seedtest.py`, last run recorded in each `meta.json`).", "",
       "| id | target | change | files | confirmed | reported by | target property reports it |",
       "|---|---|---|---|---|---|---|"]
for r in rows:
    out.append("| %s | %s | %s | %s | %s | %s | %s |" % (r[0], r[1], r[2].replace("|", "/"), r[3], "yes" if r[4] else "NO",
               ", ".join(r[5]) or "**none**", "yes" if r[6] else "**no**"))
obsolete = [json.load(open(m))["id"] for m in sorted(glob.glob("/verif/seeded/*/meta.json")) if json.load(open(m)).get("obsolete_after_fix")]
rows_live = [r for r in rows if r[0] not in obsolete]
n = len(rows_live); hit = sum(1 for r in rows_live if r[5]); tgt = sum(1 for r in rows_live if r[6])
out += ["", "%d changes (not counting %s, which the repair of finding F6 made harmless: see its meta.json); %d reported by at least one check; %d reported by the check of the property they were written against." % (n, ", ".join(obsolete) or "none", hit, tgt),
        "", "Rounds: m1-m4 were written in earlier sessions; m5/m6 (\"needs something specific\"), m7/m8 (\"hard to hit: a conjunction of two or three circumstances\"), m9/m10 (the same, pointed at the crate's less-used public surface) m11/m12, m13/m14 for ten properties and m13 for the other ten (\"find what is still unlikely to be tried\") in the last one, by fresh sub-agents given only the property text and the titles of the earlier changes to avoid. For every change the check of its target property was re-run against the current base of /repo with the harness as it stood at the end of its round (`checklib/seedeval.py`); the `reported by` column also lists other checks from the run in which the change was first evaluated. DESIGN.md section 7 says which changes were missed at first and what was strengthened.", ""]
open("/verif/seeded/README.md", "w").write("\n".join(out))
print("\n".join(out[-3:]))
