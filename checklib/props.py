"""Per-property configuration of ./check: request streams, evidence texts."""

COMMON_TB = [
    "Lean 4.33.0 kernel; axioms allowed in property theorems: propext, Classical.choice, Quot.sound (audited by #print axioms on every run)",
    "hand-written Lean model (lean/Scale/*.lean) of the Rust source; tied to /repo by differential execution of the same requests through the real crate (harness/) and the compiled model (scale_model)",
    "Rust std/alloc/core, rustc, cargo; the harness's Modeled constructor table and canonicaliser",
]

PROPS = {
    "C04": {
        "streams": ["compact"],
        "level_text": "Proved in Lean for every value below 2^W and every byte string, for the five widths: each transliterated encoder equals the specification's shortest form and never asserts; compact_len equals the produced length; the fixed-capacity using_encoded path never overflows; decode accepts bs iff bs = canonical(x) ++ rest with x < 2^W (round trip + canonicity + uniqueness); width compatibility; the decoder never panics. The model is tied to src/compact.rs by running both on ~7*10^5 (quick) cenc/cdec requests incl. exhaustive u8/u16 values and all byte strings of length <=2.",
        "level_note": "Trusted: Lean kernel (axioms propext/Quot.sound/Classical.choice only), the hand transliteration of src/compact.rs (checked differentially, not proved), Rust toolchain. u32 is not enumerated exhaustively through the text protocol: the theorem covers all values.",
        "disagreement_is_violation": True,
        "rule": "cenc/cdec requests for all five widths: exhaustive u8/u16 values, class boundaries +-window, "
                "<=2 non-zero byte lanes, random values; decoders on every string of length <=2, every "
                "(tag byte x top byte x length) combination, valid+suffix, mutated and random strings. "
                "non-trivial = distinct request whose model answer is not `err`",
        "trusted_base": COMMON_TB + ["src/compact.rs transliterated in lean/Scale/Compact.lean (five encoders, five compact_len, five decoders with PrefixInput reads, ArrayVec capacity assert)"],
        "assumptions": ["u8..u128 arithmetic is modelled on Nat with explicit `% 2^k` at each cast/shift the source performs",
                        "leading_zeros is modelled as W - bitLen (Nat.log2)"],
    },
}
