"""Per-property configuration of ./check: request streams, evidence texts."""

COMMON_TB = [
    "Lean 4.33.0 kernel; axioms allowed in property theorems: propext, Classical.choice, Quot.sound (audited by #print axioms on every run)",
    "hand-written Lean model (lean/Scale/*.lean) of the Rust source; tied to /repo by differential execution of the same requests through the real crate (harness/) and the compiled model (scale_model)",
    "Rust std/alloc/core, rustc, cargo; the harness's Modeled constructor table and canonicaliser",
]

import os, json, subprocess, shutil


def _limit_as():
    """Bound the address space of a harness process (it runs the code under test in-process)."""
    import resource
    resource.setrlimit(resource.RLIMIT_AS, (24 << 30, 24 << 30))



def empty_tie():
    return {"disagreements": [], "bad_ops": [], "oracle": [], "stats": {}, "lines": 0, "nontrivial": 0, "samples": []}


def c17_run(c):
    """Generated definitions (valid and minimally different invalid twins) compiled with ONE
    `cargo check --message-format=json` per shard against the crate's derive; diagnostics are
    attributed to programs by file; rejected(p) is compared with the model's `accepts`."""
    tie = empty_tie()
    gen = os.path.join(c["verif"], "gen", "gen_programs.py")
    shards = 5 if c["thorough"] else 1
    n = 300 if c["thorough"] else 120
    faults = {}
    for sh in range(shards):
        d = os.path.join(c["outdir"], "c17-%d" % sh)
        shutil.rmtree(d, ignore_errors=True)
        r = c["run"](["python3", gen, "compile", "--seed", str(c["seed"] * 100 + sh), "--n", str(n), "--out", d],
                     env={"VERIF_REPO": c["repo"]})
        if r.returncode != 0:
            return {"crashed": "program generator failed: " + r.stdout[-500:]}
        shutil.copyfile(os.path.join(c["repo"], "Cargo.lock"), os.path.join(d, "Cargo.lock"))
        tdir = os.path.join(os.path.dirname(c["outdir"].rstrip("/")), "..", "c17-target") if False else os.path.join(c["build"], "c17-target-" + ("alt" if c["repo"] != "/repo" else "main"))
        p = subprocess.run(["cargo", "check", "--offline", "--message-format=json"], cwd=d, stdout=subprocess.PIPE,
                           stderr=subprocess.PIPE, text=True, env=dict(os.environ, CARGO_NET_OFFLINE="true", CARGO_TARGET_DIR=tdir), timeout=3000)
        exp = json.load(open(os.path.join(d, "expect.json")))
        rejected = {}
        other_errors = []
        for l in p.stdout.split("\n"):
            try:
                m = json.loads(l)
            except Exception:
                continue
            if m.get("reason") != "compiler-message" or m["message"]["level"] != "error":
                continue
            msg = m["message"]

            def files(spans):
                out = []
                for sp in spans:
                    out.append(sp["file_name"])
                    e = sp.get("expansion")
                    while e:
                        out.append(e["span"]["file_name"])
                        e = e["span"].get("expansion")
                return out
            fs = files(msg["spans"])
            for ch in msg.get("children", []):
                fs += files(ch["spans"])
            hit = [f for f in fs if f.startswith("src/p") and f.endswith(".rs")]
            if hit:
                for f in hit:
                    rejected.setdefault(f[4:-3], msg["message"][:160])
            elif "aborting due to" not in msg["message"] and "could not compile" not in msg["message"]:
                other_errors.append(msg["message"][:200])
        if p.returncode != 0 and not rejected and not other_errors:
            return {"crashed": "cargo check of the generated programs failed without attributable diagnostics: " + p.stderr[-800:]}
        if other_errors:
            tie["oracle"].append({"property": "C17", "what": "diagnostics not attributable to a generated program: " + "; ".join(other_errors[:3])})
        reqs = "\n".join(e["request"] for e in exp) + "\n"
        m = subprocess.run([c["model"]], input=reqs, stdout=subprocess.PIPE, text=True)
        answers = m.stdout.split("\n")
        for e, a in zip(exp, answers):
            tie["lines"] += 1
            rj = e["name"] in rejected
            impl = "reject" if rj else "accept"
            if e["fault"]:
                faults[e["fault"]] = faults.get(e["fault"], 0) + 1
            if a == "bad-op":
                tie["bad_ops"].append({"line": tie["lines"], "request": e["request"][:300]})
            elif a != impl:
                src = open(os.path.join(d, "src", e["name"] + ".rs")).read()
                tie["disagreements"].append({"line": tie["lines"], "stream": "c17", "request": e["request"], "impl": impl + (": " + rejected[e["name"]] if rj else ""),
                                             "model": a, "program": src[:1500], "planted_fault": e["fault"]})
            # oracle: the generator's own expectation (a planted fault must be rejected, a fault-free twin must compile)
            if (e["fault"] is not None) != rj:
                src = open(os.path.join(d, "src", e["name"] + ".rs")).read()
                tie["oracle"].append({"property": "C17", "what": "definition with planted fault %r was %s by the compiler: %s" % (e["fault"], "rejected" if rj else "ACCEPTED", src[:600].replace("\n", " "))})
            if len(tie["samples"]) < 10 and tie["lines"] % 17 == 1:
                tie["samples"].append({"request": e["request"][:200], "compiler": impl, "model": a, "planted_fault": e["fault"]})
        tie["nontrivial"] += len(set(e["request"] for e in exp))
    tie["stats"] = {"programs": tie["lines"], "shards": shards}
    tie["stats"].update({"fault:" + k: v for k, v in faults.items()})
    return tie


C20_CONFIGS = [
    # name, cargo feature arguments
    ("std+chain-error, all optional integrations (default)", ["--features", "full"]),
    ("no_std+alloc, all optional integrations", ["--no-default-features", "--features", "bitvec-f,bytes-f,garray-f"]),
    ("no_std+chain-error, all optional integrations", ["--no-default-features", "--features", "chain,bitvec-f,bytes-f,garray-f"]),
    ("no_std+alloc, optional integrations off", ["--no-default-features"]),
]
C20_CONFIGS_THOROUGH = [
    ("std, only bit-vec", ["--no-default-features", "--features", "codec-std,chain,bitvec-f"]),
    ("std, only bytes", ["--no-default-features", "--features", "codec-std,chain,bytes-f"]),
    ("std, only generic-array", ["--no-default-features", "--features", "codec-std,chain,garray-f"]),
    ("std without optional integrations", ["--no-default-features", "--features", "codec-std,chain"]),
]


def c03_run(c):
    """Base streams, plus the F5 probe in a process of its own (the plain decode of a
    non-productive type cycle overflows the stack, which cannot be caught in-process)."""
    tie = c["base_tie"]
    if tie is None or "crashed" in tie:
        return tie
    out = os.path.join(c["outdir"], "inf")
    r = subprocess.run([c["exe"], "--streams", "inf", "--seed", str(c["seed"]), "--out", out, "--tier", "quick"], preexec_fn=_limit_as,
                       stdout=subprocess.PIPE, stderr=subprocess.STDOUT, text=True, timeout=600)
    cur = os.path.join(out, "current.txt")
    state = open(cur).read().strip() if os.path.exists(cur) else ""
    tie["stats"]["inf-probe-exit"] = r.returncode
    if r.returncode != 0:
        if state.startswith("F5 depth-limited decode of Inf rejected"):
            tie["oracle"].append({"property": "C03", "what": "F5 derived Decode on the non-productive type cycle `struct Inf(Box<Inf>)`: Inf::decode(&[]) does not terminate - the process died of stack exhaustion (exit %d) [%s]" % (r.returncode, r.stdout.strip()[-160:])})
        else:
            tie["oracle"].append({"property": "C03", "what": "the F5 probe process died before reaching the plain decode: " + state + " " + r.stdout[-300:]})
    else:
        with open(os.path.join(out, "oracle.txt")) as f:
            for l in f:
                p_, _, what = l.rstrip("\n").partition("\t")
                tie["oracle"].append({"property": p_, "what": what})
    return tie


def c09_run(c):
    """The alloc stream under the counting allocator. A request above the hard cap is refused by
    the allocator, which aborts the harness: the abort is attributed to the request recorded in
    current.txt and reported as a concrete failing input."""
    tie = c["base_tie"]
    if tie is not None and "crashed" in tie:
        cur = os.path.join(c["outdir"], "current.txt")
        what = open(cur).read().strip() if os.path.exists(cur) else "(no request recorded)"
        t = empty_tie()
        t["oracle"].append({"property": "C09", "what": "the harness process died (memory exhaustion, stack overflow or abort) while decoding: " + what[:3000],
                            "crash": tie["crashed"][-600:]})
        return t
    return tie


def c10_run(c):
    """The ledger stream, then the same in-place decoding paths interpreted by Miri (uninitialised
    reads, invalid frees, use after free, leaks at exit) - harness/miri, a crate of its own."""
    import hashlib, re
    tie = c["base_tie"]
    if tie is None or "crashed" in tie:
        return tie
    alt = c["repo"] != "/repo"
    base = os.path.join(c["build"], "alt-" + hashlib.sha1(c["repo"].encode()).hexdigest()[:8]) if alt else c["build"]
    hsrc = os.path.join(base, "harness") if alt else (os.environ.get("VERIF_HARNESS") or os.path.join(c["verif"], "harness"))
    src = os.path.join(hsrc, "miri")
    work = os.path.join(base, "miri")
    if not os.path.isdir(src):
        tie["stats"]["miri"] = "no harness/miri directory"
        return tie
    probe = subprocess.run(["cargo", "+nightly", "miri", "--version"], stdout=subprocess.PIPE, stderr=subprocess.STDOUT, text=True)
    if probe.returncode != 0:
        tie["stats"]["miri"] = "unavailable: " + probe.stdout.strip()[-120:]
        return tie
    os.makedirs(work, exist_ok=True)
    subprocess.run(["rsync", "-a", "--delete", "--exclude", "target", "--exclude", "Cargo.lock", src + "/", work + "/"], check=True)
    ct = open(os.path.join(work, "Cargo.toml")).read().replace('path = "/repo"', 'path = "%s"' % c["repo"])
    open(os.path.join(work, "Cargo.toml"), "w").write(ct)
    cfg = open(os.path.join(work, ".cargo", "config.toml")).read().replace("/verif/.build/miri-target", os.path.join(work, "target"))
    open(os.path.join(work, ".cargo", "config.toml"), "w").write(cfg)
    shutil.copyfile(os.path.join(c["repo"], "Cargo.lock"), os.path.join(work, "Cargo.lock"))
    try:
        r = subprocess.run(["cargo", "+nightly", "miri", "run", "--offline"] + (["--features", "full"] if c["thorough"] else []), cwd=work, stdout=subprocess.PIPE, stderr=subprocess.STDOUT,
                           text=True, timeout=3000, env=dict(os.environ, CARGO_NET_OFFLINE="true", MIRIFLAGS=""))
    except subprocess.TimeoutExpired:
        tie["oracle"].append({"property": "C10", "what": "Miri: the interpreted decode cases did not finish within the time limit"})
        return tie
    out = r.stdout
    m = re.search(r"MIRI-OK (\d+)", out)
    cases = re.findall(r"^CASE (.*)$", out, flags=re.M)
    tie["stats"]["miri:cases"] = int(m.group(1)) if m else len(cases)
    if r.returncode != 0 or not m:
        if "error: could not compile" in out or "error[E" in out:
            # the crate under test does not build for the interpreter: a correspondence problem, no failing input
            tie.setdefault("extra_problems", []).append("harness/miri does not build against the working tree: " + out.strip()[-600:])
        else:
            ls = out.split("\n")
            errs = [l for l in ls if l.startswith("error")]
            # an assertion of the program itself (not the scripted panics of the element decoder)
            errs += [l + " " + ls[i + 1] for i, l in enumerate(ls[:-1]) if "panicked at" in l and "scripted panic" not in ls[i + 1]]
            first = errs[0] if errs else out.strip().split("\n")[-1]
            tie["oracle"].append({"property": "C10", "what": "Miri: %s - while decoding CASE %s" % (first.strip()[:300], cases[-1] if cases else "?"),
                                  "miri_tail": out[-1500:]})
    tie["lines"] += len(cases)
    return tie


def c20_run(c):
    """Build the harness against the crate in each feature configuration, run the same
    deterministic corpus in each, compare every configuration with the same model answers and the
    configurations with each other."""
    import hashlib
    from concurrent.futures import ThreadPoolExecutor
    tie = empty_tie()
    cfgs = C20_CONFIGS + (C20_CONFIGS_THOROUGH if c["thorough"] else [])
    hdir = os.path.dirname(os.path.dirname(c["exe"])) if False else None
    # harness source directory: the one the main build used
    src = os.path.join(c["build"], "alt-" + hashlib.sha1(c["repo"].encode()).hexdigest()[:8], "harness") if c["repo"] != "/repo" else os.path.join(c["verif"], "harness")
    streams = "enc,rt,mut,rand,exh,decall,count,skip,big,append,mem,bigmem,sinks"

    def build(i):
        name, feats = cfgs[i]
        tdir = (os.path.join(c["build"], "alt-" + hashlib.sha1(c["repo"].encode()).hexdigest()[:8], "cargo-c20-%d" % i)
                if c["repo"] != "/repo" else os.path.join(c["build"], "cargo-c20-%d" % i))
        r = subprocess.run(["cargo", "build", "--release", "--offline"] + feats, cwd=src, stdout=subprocess.PIPE, stderr=subprocess.STDOUT,
                           text=True, env=dict(os.environ, CARGO_NET_OFFLINE="true", CARGO_TARGET_DIR=tdir), timeout=3000)
        if r.returncode != 0:
            return (i, None, r.stdout[-1500:])
        out = os.path.join(c["outdir"], "cfg-%d" % i)
        # configurations with std also run the input-stack stream (IoReader, decode_from_bytes ...):
        # entry points that exist only under a feature must agree with the ones that always exist
        st = streams + (",stacks" if any(("full" in f or "codec-std" in f) for f in feats) else "")
        r2 = subprocess.run([os.path.join(tdir, "release", "scale-harness"), "--streams", st, "--seed", str(c["seed"]), "--out", out,
                             # the corpus is the quick-tier corpus in both tiers (thorough adds configurations, not
                             # values: eight thorough-tier corpora do not fit into memory side by side)
                             "--tier", "quick"], stdout=subprocess.PIPE, stderr=subprocess.STDOUT, text=True, timeout=3000,
                            preexec_fn=_limit_as)
        if r2.returncode != 0:
            return (i, None, "harness run failed: " + r2.stdout[-800:])
        return (i, out, "")

    with ThreadPoolExecutor(max_workers=4) as ex:
        results = list(ex.map(build, range(len(cfgs))))
    answers = {}   # request -> {cfg index: answer}
    digests = {}
    for i, out, err in results:
        if out is None:
            return {"crashed": "configuration %r does not build or run: %s" % (cfgs[i][0], err)}
        h = hashlib.sha256()
        with open(os.path.join(out, "req.txt")) as fr, open(os.path.join(out, "rust.txt")) as fa:
            for q, a in zip(fr, fa):
                q, a = q.rstrip("\n"), a.rstrip("\n")
                answers.setdefault(q, {})[i] = a
                h.update(q.encode()); h.update(b"|"); h.update(a.encode()); h.update(b"\n")
                tie["lines"] += 1
        digests[cfgs[i][0]] = h.hexdigest()[:16]
        with open(os.path.join(out, "oracle.txt")) as f:
            for l in f:
                pp, _, what = l.rstrip("\n").partition("\t")
                tie["oracle"].append({"property": "C20", "what": "[%s] %s: %s" % (cfgs[i][0], pp, what)})
    reqs = list(answers.keys())
    m = subprocess.run([c["model"]], input="\n".join(reqs) + "\n", stdout=subprocess.PIPE, text=True)
    model = m.stdout.split("\n")
    nontriv = 0
    for q, ma in zip(reqs, model):
        per = answers[q]
        vals = set(per.values())
        if ma != "err":
            nontriv += 1
        if len(vals) > 1:
            # oracle (C20): configurations disagree with each other
            tie["oracle"].append({"property": "C20", "what": "configurations disagree on `%s`: %s" % (q[:300], {cfgs[i][0]: a[:80] for i, a in per.items()})})
        for i, a in per.items():
            if ma == "bad-op":
                tie["bad_ops"].append({"line": 0, "request": q[:300]})
                break
            if a != ma:
                if len(tie["disagreements"]) < 200:
                    tie["disagreements"].append({"line": 0, "stream": "c20:" + cfgs[i][0], "request": q, "impl": a, "model": ma})
                break
        if len(tie["samples"]) < 8 and hash(q) % 5000 == 0:
            tie["samples"].append({"request": q[:200], "answers_per_configuration": {cfgs[i][0]: a[:80] for i, a in per.items()}, "model": ma[:80]})
    tie["nontrivial"] = nontriv
    tie["stats"] = {"configurations": len(cfgs), "distinct_requests": len(reqs)}
    tie["stats"].update({"digest:" + k: v for k, v in digests.items()})
    # informational: cfg(feature) sites in the crate's sources
    try:
        g = subprocess.run("grep -rn 'feature *= *\"' %s/src %s/derive/src | wc -l" % (c["repo"], c["repo"]), shell=True, stdout=subprocess.PIPE, text=True)
        tie["stats"]["cfg_feature_sites_in_sources"] = int(g.stdout.strip() or 0)
    except Exception:
        pass
    if not tie["samples"]:
        tie["samples"].append({"request": reqs[0][:200], "model": model[0][:80]})
    return tie


PROPS = {
    "C04": {
        "streams": ["compact"],
        "level_text": "Proved in Lean for every value below 2^W and every byte string, for the five widths: each transliterated encoder equals the specification's shortest form and never asserts; compact_len equals the produced length; the fixed-capacity using_encoded path never overflows; decode accepts bs iff bs = canonical(x) ++ rest with x < 2^W (round trip + canonicity + uniqueness); width compatibility; the decoder never panics. The model is tied to src/compact.rs by running both on ~7*10^5 (quick) cenc/cdec requests incl. exhaustive u8/u16 values and all byte strings of length <=2.",
        "level_note": "Trusted: Lean kernel (axioms propext/Quot.sound/Classical.choice only), the hand transliteration of src/compact.rs (checked differentially, not proved), Rust toolchain. u32 is not enumerated exhaustively through the text protocol: the theorem covers all values.",
        "disagreement_is_violation": True,
        "rule": "cenc/cdec requests for all five widths: exhaustive u8/u16 values, class boundaries +-window, "
                "<=2 non-zero byte lanes, random values; decoders on every string of length <=2, every "
                "(tag byte x top byte x length) combination, valid+suffix, mutated and random strings. "
                "non-trivial = distinct request whose model answer is not `err`",
        "trusted_base": COMMON_TB + ["src/compact.rs transliterated in lean/Scale/Compact.lean (five encoders, five compact_len, five decoders with PrefixInput reads, ArrayVec capacity assert)"],
        "assumptions": ["u8..u128 arithmetic is modelled on Nat with explicit `% 2^k` at each cast/shift the source performs",
                        "leading_zeros is modelled as W - bitLen (Nat.log2)"],
    },
    "C01": {
        "streams": ["enc", "big", "sinks", "hist"],
        # bytes written by encode_to into any sink are part of C01's observation point
        "also_oracles": ["C07"],
        "disagreement_is_violation": True,
        "rule": "enc requests (value text -> bytes) for every catalogue type (~270 instantiations: all primitives, compact, NonZero, Option/Result/OptionBool, all six collections, arrays, tuples to 18, String/Cow, Box/Rc/Arc, PhantomData, Duration, ranges, all bit stores x orders, Bytes, GenericArray, derived structs/enums incl. skip/compact/encoded_as/CompactAs/index attr/discriminant/recursive/transparent/generic) with boundary-biased values, plus vectors/deques/lists/sets whose lengths straddle k*16KiB/size_of. non-trivial = distinct request whose model answer is not `err`",
        "level_text": "Proved in Lean for every well-formed value of every modelled type (structural induction over the type descriptor, no size bound): the transliterated encode_to (bulk path for the 12 primitive element types, compact_encode_len_to(..).expect, bit-sequence re-chunking with zero padding for all stores/orders, enum index byte, transparent wrappers) produces exactly Spec.encode, the written-out SCALE format, and reaches no panic site. Spec.encode is pinned by the repository's own hex vectors (kernel-checked `decide` examples). The model is tied to the crate by running both on every catalogue type's generated values each run.",
        "level_note": "Trusted: Lean kernel; the hand-written model (differentially checked, not proved, against src/codec.rs, src/compact.rs, src/bit_vec.rs, src/generic_array.rs, derive/src/encode.rs); to_le_bytes / as_byte_slice / bitvec chunking modelled by contract; floats are bit patterns; memory reinterpretation in the bulk path assumed little-endian (harness reports the target's endianness).",
        "trusted_base": COMMON_TB + ["to_le_bytes, byte-slice-cast (little-endian target), bitvec chunks/copy_from_bitslice modelled by contract"],
        "assumptions": ["recursive derived types are modelled by finite unfoldings", "size_of values are measured by the harness and passed in the type descriptor"],
    },
    "C02": {
        "streams": ["rt", "big"],
        "rule": "dec requests on encode(v) ++ random suffix (0..3 bytes) for every catalogue type; lengths straddling k*16KiB/size_of for 22 element/collection combinations incl. ZST elements; oracle on the implementation: decoded value text == original (bit-equal floats, heaps as sorted multisets) and remaining == suffix length. non-trivial = distinct request whose model answer is not `err` Also: 160 seeded random compositions of built-in types (depth <= 3); big lengths decoded twice in a row through an unknown-length input and IoReader (value and bytes consumed); strings whose multi-byte characters straddle every 16 KiB boundary.",
        "level_text": "Proved in Lean: for every well-formed value of every modelled type and every suffix, running the transliterated decoder (chunked item reader, bulk read_vec_from_u8s, hook calls, PrefixInput reads, from_iter for maps/sets, bit-sequence truncation) on Spec.encode v ++ rest returns (norm v, rest) - by structural induction, so it crosses the 16 KiB chunk loop for all lengths. norm is the identity except that heaps are compared as sorted multisets (permutation proved). Tied to the crate by the rt/big streams and by the implementation-side oracle decode(encode v) == v.",
        "level_note": "Trusted: as C01. Hypotheses, all decidable and exhibited satisfiable: wf (ranges, counts < 2^32, bits < 2^29, valid UTF-8), canon (map/set keys strictly increasing under the modelled Ord - std's Ord is a contract, exercised by the tie), layoutOk (the crate's own compile-time size_of <= MAX_PREALLOCATION assertion). Values in a skipped variant are excluded (no encoding by design); skipped fields are not part of the model value (the harness checks they come back as Default).",
        "trusted_base": COMMON_TB + ["std Ord of key types, BTreeMap/BTreeSet::from_iter, BinaryHeap::from(Vec), String::from_utf8 modelled by contract"],
        "assumptions": ["equality of derived types is equality of the model value text (skipped fields excluded)"],
        "also_oracles": [],
    },
    "C14": {
        "streams": ["cut", "concat", "decall", "big"],
        "rule": "every cut point (all for encodings <=48 bytes, head/tail plus a sample beyond) of generated encodings of every catalogue type (oracle: must fail); heterogeneous concatenations of 2..50 encoded values of mixed catalogue types decoded value by value (oracle: each value recovered, exact consumption); decode_all / decode_all_with_depth_limit(64) vs decode on valid, suffixed, mutated and double encodings (oracle: ok iff decode ok with nothing left). non-trivial = distinct request whose model answer is not `err`",
        "level_text": "Proved in Lean: (generic over every decoder program) a successful decode consumes a prefix and is unaffected by following bytes; hence with the C02 round trip: decoding any strict prefix of an encoding fails with an error (never a panic), a concatenation of encodings of arbitrary mixed types decodes value by value leaving the rest, decode_all / decode_all_with_depth_limit succeed iff decode succeeds with empty remainder (same value), and decode_all rejects any trailing bytes. Tied to the crate by the cut/concat/decall streams and the implementation-side oracles.",
        "level_note": "Trusted: as C02 (same hypotheses wf/canon/layoutOk, plus widthsOk: Compact<_> nodes have one of the crate's five widths).",
        "trusted_base": COMMON_TB,
        "assumptions": ["as C02"],
    },
    "C03": {
        "custom": c03_run,
        "streams": ["mut", "rand", "exh", "utf8", "big", "dvl", "userext"],
        "disagreement_is_violation": True,
        "rule": "dec requests for every catalogue type on four byte-string streams: mutations of valid encodings (bit flips, boundary bytes, truncation, extension, count tampering at the front and at inner positions with {0,1,2,63..65,2^14-1,2^14,2^30-1,2^30,2^32-2,2^32-1}, splices, insert/delete), random strings (tag-biased), exhaustive strings of length <=1 for all types and <=2 for small-alphabet types (boundary alphabet otherwise), and the UTF-8 stream (all 1-2 byte strings, 3-byte strings with lead E0..EF x all second bytes, boundary 4-byte forms); every call in catch_unwind. non-trivial = distinct request whose model answer is not `err` Also: `decpos` requests (where the slice stands after a FAILED decode); implementation-side oracles in `big`: 2^29-1 bits accepted and 2^29 bits rejected with 64 MiB of storage words present; straddling strings; 160 random compositions. Also the `dvl` stream: the public decode_vec_with_len called directly with any length (incl. 2^32, usize::MAX/size ± 1, usize::MAX) over a slice and an unknown-length input.",
        "level_text": "Proved in Lean for every byte string: the modelled decoder is total (kernel-accepted recursion) and never panics (the unreachable!/assert!/UNEXPECTED ERROR sites are dead); it consumes a prefix only; for every wire-canonical type (all but maps/sets/heaps/bit sequences) decode bs = (ok v, rest) IFF wf v and bs = SCALE-encoding(v) ++ rest - the decoder accepts exactly the SCALE language; for EVERY type without bit sequences, incl. maps/sets/heaps at any nesting, decode bs = (ok v, rest) IFF bs = SCALE-encoding(raw) ++ rest for some well-formed raw and v = raw order-normalised (heaps sorted, maps/sets rebuilt by from_iter: any order and duplicates accepted, later entry wins) - via the theorem that such a decoder IS the decoder of the same type with plain sequences followed by normalisation, on every input; bit sequences: accepted inputs are exactly count <= 2^29-1 plus ceil(n/w) words of any content, value = first n unpacked bits (padding not inspected); each rejection the property names is a theorem (bad tags for bool/Option/Result/OptionBool, unknown variant index, zero NonZero, nanos >= 10^9, invalid UTF-8, non-minimal/over-wide compact, > 2^29-1 bits, primitive count exceeding the data). The model is tied to the crate on ~10^5 hostile and random strings per run incl. an exhaustive-prefix UTF-8 stream.",
        "level_note": "Known finding F5 (derived Decode on a type cycle that consumes no byte per level never returns) is probed in a process of its own and reported as KNOWN-FINDING; the model's types are finite trees, so such a type has no descriptor - that is the point the theorems exclude. Trusted: as C01. utf8Valid is the model's own UTF-8 automaton; its agreement with core::str::from_utf8 is established by the utf8 stream, not by proof. Out-of-bounds reads are not expressible in the model (the slice bounds check is modelled). Non-productive recursive types (finding F5) have no finite unfolding and are outside the model. For maps/sets/heaps/bit sequences only soundness (round trip of the normalised value), not the iff, is proved: their documented non-canonical acceptances (unsorted/duplicate entries, heap order, padding bits) are by design.",
        "trusted_base": COMMON_TB + ["core::str::from_utf8 (contract: utf8Valid), checked on the utf8 stream"],
        "assumptions": ["recursive derived types are unfolded deeper than the input is long"],
    },
    "C18": {
        "streams": ["skip", "len", "big", "userext"],
        "rule": "skip vs dec (outcome and remaining length) for every catalogue type on valid+suffix, mutated, truncated and exact encodings; encoded_fixed_size() of every catalogue type vs the model; DecodeLength::len on generated values (incl. 20k-element ones) of the six collections and of tuples led by them, and on mutated strings. Oracles on the implementation: skip == decode (ok-ness and position), len == true element count, fixed size == every value's size. non-trivial = distinct request whose model answer is not `err` Also: every count-prefix class boundary as a bare prefix; skip through an unknown-length input and IoReader; skip under memory limits; long strings with a character cut short at 4 KiB multiples followed by ASCII (skip must fail like decode).",
        "level_text": "Proved in Lean: DecodeLength::len on encode(coll) ++ rest is the element count, for all six collection kinds and tuples led by them; for every type and every byte string skip succeeds iff decode succeeds and then leaves the input at the same position (including the [T;N] override that skips fixed-size elements one at a time while decode reads them in bulk - shown equivalent to one bulk read); a reported encoded_fixed_size is the length of every value's encoding. Tied to the crate by the skip/len streams and oracles.",
        "level_note": "Trusted: as C01. After a *failed* skip/decode the position of the input is not compared (the bulk decode leaves a slice untouched where the element-wise skip has consumed some elements; the property speaks of success position and of failing exactly when decode fails).",
        "trusted_base": COMMON_TB,
        "assumptions": ["as C01"],
    },
    "C19": {
        "streams": ["count", "wrapops"],
        "rule": "(i) the wrapper itself: seeded operation sequences (read n with n in {0,1,small,exact remaining,remaining+1,huge}, read_byte, remaining_len, descend_ref, ascend_ref, on_before_alloc_mem; length 1..100) applied to a real CountedInput over a slice and to the model's countedInput sliceInput, the operation's result and count() compared after every operation; (ii) decoders through it for every catalogue type on exact, suffixed, mutated and truncated encodings: on success value, remaining and count are compared with the model; after success AND failure the implementation-side oracle count() == original_len - remaining_len is checked (positions at failure are not compared with the model). non-trivial = distinct request whose model answer is not `err` Also: op sequences over a probe inner input whose remaining_len is exact / None / constant / capped, slice-like or reader-like, logging the hooks it receives (cops2); CountedInput over a small-limit MemTrackingInput over the probe (cops3: refusals must not stop the counting); single reads larger than 16 KiB over data covering only part of them.",
        "level_text": "Proved in Lean for ANY wrapped input and ANY (adaptive) sequence of Input operations, successful or failing: CountedInput's count() equals the exact number of bytes the wrapped input delivered, saturated at u64::MAX, and the wrapper alters neither results nor the wrapped input (one exact-simulation theorem over all decoder programs). Over a slice: count == original length - remaining length after every decode, successful or failed; == encoded length after decoding an encoding; a failed read adds nothing; the counter never decreases nor exceeds u64::MAX. Tied to src/counted_input.rs by operation sequences on the real wrapper and by all catalogue decoders run through it.",
        "level_note": "Trusted: as C01. Saturation beyond 2^64 bytes cannot be exercised on real hardware; it is covered by the theorem (the model adds with min at 2^64-1 exactly as saturating_add / try_into().unwrap_or(u64::MAX)) and by the transliteration being compared on every other path.",
        "trusted_base": COMMON_TB,
        "assumptions": ["the wrapped input does not override scale_internal_decode_bytes (true of every input CountedInput can wrap through its public constructor: the override is not forwarded)"],
    },
    "C11": {
        "streams": ["limit", "decall", "big", "userext"],
        "rule": "limit requests: for every catalogue type (nesting Vec, Box, Rc, Arc, BTreeMap, BTreeSet, LinkedList, VecDeque, BinaryHeap, Option, tuples, recursive derived Tree/Chain) on valid, mutated and suffixed encodings, every limit L = 0..need+2 (need = least succeeding limit, scan capped at 12 when none succeeds): value, remaining compared with the model; oracles: transparent (ok => equals unlimited), monotone in L, some limit succeeds when unlimited does; decode_all_with_depth_limit vs decode. non-trivial = distinct request whose model answer is not `err`; for every untampered encoding the least sufficient limit observed on the real crate is compared with the model's nesting(ty, v) Also: every limit of the limit stream repeated through a decoder that reads via CountedInput (ViaCounted<T>); `big`: 2502-item vectors whose only nested item lies behind the first preallocation chunk, wide sibling holders.",
        "level_text": "Proved in Lean for every type, byte string and limit (lax simulation theorem over all decoder programs between the unlimited input, a depth-recording specification input and the transliterated DepthTrackingInput): limited decoding returns exactly the unlimited result (value and position) or an error; when unlimited decoding succeeds, the limited one succeeds with the same result IFF L >= need, where need is the maximal number of simultaneously open descend_ref calls of the unlimited run (hence monotone in L, success for all L >= need, failure for all L < need); decode_all_with_depth_limit succeeds iff decode_with_depth_limit succeeds with nothing left. Tied to the crate by the limit stream over all L around the threshold. The abstract needed depth is made concrete by the hook-trace theorem (Proofs/HookTrace.lean: decoding the encoding of ANY well-formed value makes exactly the hook calls hookTrace ty v, through the chunked, bulk and from_iter paths): needDepth = nesting ty v, the container nesting of the value (Box/Rc/Arc, lists, tree maps/sets and element-wise vectors cost a level; vectors of primitives, strings, byte buffers, bit sequences none; components take the maximum) - hence limited decoding of an encoding succeeds IFF nesting <= L (succeeds_iff_nesting_le, deeper_than_limit_rejected), and the depth counter returns to where it started (depth_balanced: siblings do not accumulate).",
        "level_note": "Trusted: as C01. Partial: (1) 'stack-safe' - the theorem bounds the number of open descend_ref levels, i.e. decoder frames of heap-allocating containers, not machine stack bytes; survival of 10^6-deep input on a small stack is a harness observation (thorough tier), not a theorem. (2) need <= value nesting depth is checked by the tie (every L from 0), the theorem fixes need as a property of the unlimited run.",
        "trusted_base": COMMON_TB,
        "assumptions": ["the model runs the wrapper over a slice; C08 extends to other inputs"],
    },
    "C12": {
        "streams": ["mem", "wrapops", "bigmem", "userext", "big"],
        "rule": "mem requests for every DecodeWithMemTracking catalogue type on valid and mutated encodings: first L = usize::MAX (gives U = used_mem()), then every L in 0..=U+1 when U <= 96 (4096 thorough), boundary limits {0,1,U/2,U-1,U,U+1,2U} otherwise: result, remaining and used_mem() compared with the model after success and failure; oracles: non-binding limit transparent, success for all L > U, failure for all 0 < L <= U; plus operation sequences (hook sizes incl. 0, usize::MAX and saturating sums; limits incl. 0 and usize::MAX) on a real MemTrackingInput vs the model, used_mem() compared after every operation. non-trivial = distinct request whose model answer is not `err`; for every untampered encoding used_mem() of the real crate is compared with the model's payload(ty, v) Also: usage seen through decode_with_depth_limit over a MemTrackingInput, through CountedInput over it and through a tracker stacked on a tracker must equal U; skip under every limit agrees with decode; the probe inner input (mops2).",
        "level_text": "Proved in Lean for every type, byte string and limit L <= usize::MAX: memory-limited decoding returns exactly the unlimited result or an error; with U the tracked usage of the unlimited run, if unlimited decoding succeeds then L > U gives the same value, position and used_mem = U, and U > 0 with L <= U gives an error - a single exact threshold (hence monotone). The hook sizes (chunked vec reservations, Box sizes, list node sizes, the transliterated mem_size_of_btree estimate) are part of the decoder model and compared with used_mem() of the real MemTrackingInput on every request. The threshold is meaningful: by the hook-trace theorem the sizes announced while decoding the encoding of any well-formed value add up to exactly payload ty v - element count x element size per sequence, pointee size per box, string/byte-buffer length, bit-sequence storage words, the crate's node estimate for trees, summed over nesting (tracked_usage_is_payload: U = min(payload, usize::MAX)); U = 0 for heap-free types (usage_zero_without_heap); a successful memory-limited decode implies payload < L (limit_bounds_payload); the tree estimate is within a factor of two of the entries' own bytes (tree_estimate_within_factor_two, arithmetic on the transliterated mem_size_of_btree).",
        "level_note": "Trusted: as C01; size_of values and the b-tree leaf size are measured by the harness in the same build and passed in the type descriptor. 'U is zero for values holding no heap data and at least the payload bytes' is a theorem (tracked_usage_is_payload: U = the value's heap payload, summed over nesting and capped at usize::MAX; usage_zero_without_heap; limit_bounds_payload) and is tied per request by comparing the model's U with the real used_mem(). User-defined wrapper types relying on the provided WrapperTypeDecode::decode_wrapped announce nothing (Ty.wrap; user_wrapper_announces_nothing) - unlike Box, which at a limit of 0 is refused even for a zero-sized pointee.",
        "trusted_base": COMMON_TB + ["size_of::<T>() measured by the harness"],
        "assumptions": ["limits are usize values (L <= 2^64-1)"],
    },
    "C08": {
        "streams": ["stacks", "big", "dvl", "userext"],
        "rule": "for every catalogue type, on exact, suffixed, mutated and truncated encodings: the same bytes decoded through 12 input stacks - &[u8], IoReader<Cursor>, IoReader over a reader delivering 1..3 bytes per call, a custom Input with remaining_len = None, decode_from_bytes (shared buffer incl. zero-copy path), CountedInput / MemTrackingInput(usize::MAX) / depth-limit(u32::MAX) alone and nested three deep in different orders over slice, unknown-length and short-read inputs; oracle on the implementation: every stack gives the slice's outcome (ok value + bytes consumed | err); the slice, IoReader and BytesCursor outcomes are also compared with the model's three input instances. non-trivial = distinct request whose model answer is not `err` Also: many sibling holders (8/70/300 Box/Rc/Arc elements, also of zero-sized pointees) under depth limits 3 and 8 alone and under counting+memory wrappers; big lengths and straddling strings through unknown-length inputs; `decbc` answered by the model's BytesCursor with position arithmetic (cursorInput).",
        "level_text": "Proved in Lean (lax simulation theorem over all decoder programs): over ANY input that delivers the bytes faithfully - whatever it reports as remaining length and wherever it stands after a failed read - every decoder returns what it returns over the slice: same success/failure and value, and on success the same bytes consumed. Instances proved faithful: the slice, the unknown-length read_exact reader (IoReader / short-chunk readers / custom None-length inputs), the BytesCursor incl. its zero-copy scale_internal_decode_bytes override, and CountedInput over any faithful input. Depth- and memory-limit wrappers over ANY input are proved transparent (same result and wrapped-input state) whenever their limit is non-binding (>= needed depth / > tracked usage) and never to turn a failure into a success; so wrappers stack in any order. The only decoder branch that consults remaining_len (read_vec_from_u8s) is shown to reject early exactly when the chunked reads would reject later. Tied to the crate by the stacks stream.",
        "level_note": "Trusted: as C01; std::io::Read::read_exact and bytes::Bytes (advance/split_to) are modelled by contract (all-or-nothing delivery). After a FAILED decode the position of a non-slice input is unspecified and not compared. Inputs longer than usize::MAX bytes are excluded (`bounded`).",
        "trusted_base": COMMON_TB + ["std::io::Read::read_exact, std::io::Cursor, bytes::Bytes modelled by contract"],
        "assumptions": ["the wrapped input of a limit wrapper does not override scale_internal_decode_bytes (wrappers do not forward it)"],
    },
    "C13": {
        "streams": ["mel", "skip"],
        "disagreement_is_violation": False,
        "rule": "for every catalogue type that implements MaxEncodedLen (observed by a compile-time trait probe; 87 types: primitives, NonZero, Compact, Option/Result, tuples, arrays, Box/Arc, PhantomData, Duration, ranges, derived structs/enums with compact / encoded_as / skipped fields and variants, generic instantiations): max_encoded_len() vs the model's transliteration; for every type marked ConstEncodedLen (probe): the model must mark it too; encoded_fixed_size() of every catalogue type vs the model; oracles on the implementation over 300 (3000 thorough) boundary-biased values per type: no encoding longer than the declared maximum, CEL types always exactly the maximum, fixed-size types always that size; the evidence records for how many types the maximum was attained. non-trivial = distinct request whose model answer is not `err` Also: derived enums with a skipped variant before a same-shaped live one, a 10-variant generic enum instantiated narrow-then-wide, mel_bound(skip_type_params) types (oracle only), mixed-width tuple arrays for encoded_fixed_size.",
        "level_text": "Proved in Lean for every type with a declared maximum (built-in impls and the derive's formula, for all definitions: compact / encoded_as fields, skipped fields and variants, generics) and every well-formed value: encoded length <= max_encoded_len() (the code's saturating computation is shown to be the mathematical maximum capped at usize::MAX); for every ConstEncodedLen-marked type the encoded length is exactly the declared one; when encoded_fixed_size() is Some(n) every value has n bytes. The transliterated tables are tied to src/max_encoded_len.rs, src/const_encoded_len.rs and derive/src/max_encoded_len.rs by comparing max_encoded_len() / CEL membership (trait probes) / encoded_fixed_size() for every catalogue type.",
        "level_note": "Trusted: as C01. Finding F1 (derive ignored compact/encoded_as) was a genuine defect and is repaired by a fix: commit in /repo (see known_findings.json `fixed`); on the unrepaired tree the mel stream reports it as an implementation-vs-oracle failure with the failing value. Hypothesis melNat <= usize::MAX (no saturation) is needed because a saturated declaration is not a bound for astronomically large array types.",
        "trusted_base": COMMON_TB + ["trait probes (inherent item shadows trait item) for MaxEncodedLen / ConstEncodedLen membership"],
        "assumptions": ["derived types derive MaxEncodedLen only where the harness requests it"],
    },
    "C15": {
        "streams": ["append"],
        "rule": "append_or_new histories: 1..5 batches of {0,1,2,3,7,62,63,64} items of u8, u32, String, Vec<u8>, (), a derived newtype, by value and by reference, Vec and VecDeque targets, starting from empty input or from an encoded sequence of {0,1,2,5,61..65} elements; alias item forms (&str into Vec<String>, Box<u32> into Vec<u32>); forged count prefixes n on and around 63/64, 2^14, 2^30, 2^31, 2^32 followed by a short payload, combined with iterators whose len() is {0,1,2,63,64,2^14,2^30-1,2^30,2^32-2,2^32-1,2^32,2^32+1,2^33+7,usize::MAX} (the code never inspects payload or items, so these reach every prefix-width change and the overflow cheaply); random prefixes that are not valid counts; thorough: a genuine iterator of 2^32+1 zero-sized items. Oracles: result == encode of the whole sequence; unrepresentable count => error; invalid prefix => error. non-trivial = distinct request whose model answer is not `err` Also: single batches taking the count across two prefix widths at once (1 -> 4 bytes) for u8/u32/Marker items; over-long zero-padded and other non-canonical count prefixes.",
        "level_text": "Proved in Lean for an ARBITRARY payload and items (the transliterated append_or_new_impl never inspects them): appending m items to compact(n) ++ payload yields compact(n+m) ++ payload ++ items whenever n+m <= u32::MAX - in particular appending to the encoding of a vector or deque gives the encoding of the concatenation, across every prefix-width change; appending to empty input gives the encoding of the items alone; any history of appends equals one encode of the concatenation (induction over batches); n+m > u32::MAX or m > u32::MAX gives an error, never a wrong count; input not beginning with a valid count is rejected; no panic site (copy_from_slice length, slice index) is reachable. Tied to src/encode_append.rs by the append stream.",
        "level_note": "Trusted: as C01. Finding F3 (items_to_append as u32 truncation) was a genuine defect, repaired by a fix: commit in /repo; on the unrepaired tree the forged-prefix stream reports it with the failing (n, m). hfit: the existing buffer fits twice into the address space (the code's own checked_mul(2) error is proved to be the only other outcome). ExactSizeIterator::len() is trusted by the code for the count; the model takes len and the yielded items' bytes as separate inputs.",
        "trusted_base": COMMON_TB,
        "assumptions": ["EncodeLike item forms encode like the item (C16)"],
    },
    "C07": {
        "streams": ["sinks", "bulk", "big"],
        "rule": "for every catalogue type, generated values through six sinks - encode(), encode_to(Vec), encode_to(an io::Write accepting 1..7 bytes per call, i.e. through write_all), encode_to(&mut dyn Output), using_encoded, encoded_size - oracle: all equal; encode / using_encoded / encoded_size compared with the model's three entry points; all twelve primitive element types x lengths {0,1,2,3,17,c-1,c,c+1,2c+1} (c = 16KiB/size; thorough: 64 more incl. up to 3c+1) x {slice, Vec, wrapped VecDeque, arrays of 0/1/7/32/33} against the element-wise twin newtype: encodings equal; the same (exact, truncated, extended) bytes decoded by the bulk and by the element-wise decoder: same outcome. non-trivial = distinct request whose model answer is not `err` Also: sequences and arrays of validating one-byte elements (bool, OptionBool, NonZero*, Option<bool>) vs element-wise twins on damaged bytes; `join` (Joiner::and / KeyedVec::to_keyed_vec vs the model) for every catalogue value; tuples whose size_hint under-reports (encodings > 256 bytes) through every entry point; wrapped deques with a short first and a long second slice and vice versa.",
        "level_text": "Proved in Lean: every impl overrides at least one of the three mutually-defaulting Encode methods, so all four entry points terminate for every type (and an impl overriding none - what the derive emitted for an all-skipped enum before the fix - provably never terminates); for every well-formed value encode, encode_to, using_encoded and encoded_size describe the same byte string (the last as its length), and the fixed-capacity buffer of CompactRef::using_encoded never overflows; any sink whose write appends observes the same bytes however the encoder splits them into write calls; bulk encoding of primitive slices (and of both ring-buffer slices of a deque, for every split) equals element-wise encoding; bulk decoding of a primitive vector accepts exactly the byte strings its element-wise twin accepts, with the same elements and consumption. Tied to the crate by six sinks per value and bulk-vs-twin comparisons on all 12 primitive types.",
        "level_note": "Trusted: as C01. The reinterpretation of memory in the bulk paths is modelled as little-endian bytes (the harness records the target's endianness); how each impl splits its output into write/push_byte calls is not modelled - the sink theorem quantifies over all splittings instead. Finding F2 (all four defaults of an all-skipped enum recurse forever) was a genuine defect, repaired by a fix: commit.",
        "trusted_base": COMMON_TB + ["std::io::Write::write_all modelled by contract"],
        "assumptions": ["as C01"],
    },
    "C16": {
        "streams": ["like", "hist"],
        "disagreement_is_violation": True,
        "rule": "(i) the crate's EncodeLike table observed by compile-time trait probes over all ordered pairs of ~55 representative types (owned, &T, &&T, &mut T, Box/Rc/Arc/Cow, Option/Result/array/tuple with alias elements, Vec/&[T]/VecDeque/LinkedList/BinaryHeap/BTreeSet/BTreeMap and their entry slices, String/&str, Vec<u8>/&[u8]/Bytes, Ref<T,U>, a derived type): every pair the crate declares is sent to the model's decision procedure encodesLike, which must accept it (a wrongly added impl such as u32: EncodeLike<u64> flips a probe and is rejected by the model); (ii) for ~30 declared pairs, generated values of A (built as borrowed / boxed / converted views of an owned value) are encoded, decoded as B (compared with the model), and checked on the implementation: decodes completely, re-encodes to the same bytes (unless B normalises), and equals the encoding of the value the alias stands for. non-trivial = distinct request whose model answer is not `err` Also: compact references at value level (CompactRef(&x) for all five widths and through CompactAs, &Compact, Box<Compact>).",
        "level_text": "Proved in Lean: the SCALE encoding of a value depends only on the shape of its type - holders (Box/Rc/Arc; &T, &mut T, Cow, Ref are already the held type) and the flavour of a count-prefixed collection (vector, slice, deque, list, heap, set, map entries) are invisible - so types of equal shape encode every value byte-for-byte alike, and the bytes of a value of A decode as B to the corresponding logical value, normalised as B normalises (entries decoded as a map come back sorted); byte buffers encode like sequences of u8, strings like byte buffers, (T,) / single-field structs like the field, &[(T,)] like a set of T; each impl family of the crate is an instance. The decision procedure encodesLike is tied to the crate by the probe matrix: every declared pair must be accepted.",
        "level_note": "Trusted: as C01; the trait probes; the harness's descriptor table for reference forms. Compact/CompactRef pairs are not probed in the matrix (the probe makes rustc's trait solver overflow); CompactRef is covered through compact fields in C05/C01. An EncodeLike impl over a type constructor outside the probed list would be invisible to the matrix.",
        "trusted_base": COMMON_TB + ["trait probes for A: EncodeLike<B>"],
        "assumptions": ["as C02 for decodability"],
    },
    "C06": {
        "streams": ["hist", "enc", "bulk", "sinks"],
        "rule": "construction histories, bytes compared after EVERY step with the model and (oracle) with the encoding of a freshly collected vector: VecDeque<u8/u32/String/derived/Option<u16>> under 5..45 random push_front/push_back/pop/rotate/make_contiguous/reserve/shrink_to_fit/insert (the model receives the actual two slices of as_slices(); the evidence counts steps in a wrapped state); Vec/String under push/pop/reserve/shrink/remove; BTreeMap/BTreeSet reached by two different insert/remove histories; LinkedList under push/split_off/append; BitSlice<u8..u64, Lsb0/Msb0> sub-slices at every start offset 0..2w and six lengths vs a fresh BitVec of the same bits; Box/Rc/Rc-clone/Arc/Cow::Borrowed/Cow::Owned/&T/&&T/Box<&T> holders of one value; plus the enc stream (oracle: encoding twice gives the same bytes). non-trivial = distinct request whose model answer is not `err`",
        "level_text": "Proved in Lean: for EVERY split of a deque's contents into the two slices as_slices() may return the transliterated VecDeque::encode_to yields the encoding of the vector of its elements (every ring-buffer state at once); for any lawful key order the same entries inserted in any order (any permutation) produce the same iteration order and hence the same map/set encoding; Box/Rc/Arc are transparent (and &T, &mut T, Cow, Ref are the held type in a descriptor); collection flavour and size_of/capacity do not enter the encoding; a bit sequence's encoding is a function of its bit list alone; the encoder is a function (determinism). In the model a value IS its logical content, so spare capacity, ring position, insertion history and bit offset cannot influence the model's bytes - that this frame condition holds of the real code is what the hist stream establishes step by step. The modelled key order (Val.cmp) is proved a lawful total order on all values (swap, transitivity, equality only on identical values), so the map/set theorems hold unconditionally for it.",
        "level_note": "Trusted: as C01. VecDeque::as_slices (its two slices concatenate to the content), BTreeMap/BTreeSet iteration in key order, BitSlice::chunks / copy_from_bitslice are std/bitvec contracts - exactly the hypotheses of the theorems - exercised by the tie. The lawfulness of Ord for key types is an assumption of the map theorem (proved for the model order only as far as antisymmetry). BinaryHeap is deliberately outside this property (its encoding follows its internal order).",
        "trusted_base": COMMON_TB + ["VecDeque::as_slices, BTreeMap iteration order, bitvec chunking modelled by contract"],
        "assumptions": ["Ord of key types is a lawful strict total order"],
    },
    "C05": {
        "streams": ["enc", "rt", "mut", "rand", "exh", "cut", "skip", "sinks", "decall", "mel"],
        "env": {"VERIF_ONLY_DERIVED": "1"},
        "disagreement_is_violation": True,
        "rule": "60 generated definitions (harness/src/generated.rs, produced by gen/gen_programs.py from the derive's attribute grammar: named / tuple / unit structs, repr(transparent) newtypes incl. compact fields (also inside Box, Rc and arrays), enums with 0..6 variants mixing index attributes, explicit discriminants, implicit positions and skipped variants incl. all-variants-skipped and empty enums; fields marked skip / compact / encoded_as; nesting of generated types) plus ~30 hand-written derived types (generics, recursion, CompactAs): each definition is sent to the model in SURFACE syntax and elaborated there (Scale/Derive.lean); enc / round trip / mutated / random / exhaustive-short / cut / skip / six sinks / decode_all / max_encoded_len requests compared with the model; oracles: round trip with skipped fields at Default, strict prefixes fail, entry points agree. non-trivial = distinct request whose model answer is not `err`",
        "level_text": "Proved in Lean over ALL definitions: a struct elaborates to exactly its non-skipped fields in declaration order, each in its selected representation (compact field -> compact integer of the field's width, also through CompactAs newtypes; encoded_as -> the named type; skipped -> absent), and its encoding is their plain concatenation; variant indices follow the precedence index attribute > discriminant > position among NON-skipped variants; for an accepted enum the index bytes are pairwise distinct and fit a byte, hence encoding variant j writes its own index byte followed by its fields and decoding finds that variant; round trip (C02 on the elaborated type); a value in a skipped variant encodes to no bytes and every entry point terminates even when all variants are skipped (after the fix:); an index byte naming no variant is rejected. The elaboration is tied to derive/src/{encode,decode,utils}.rs by letting the model elaborate the surface definition of every generated program and comparing bytes and decodes.",
        "level_note": "Trusted: as C01; the program generator is the ground truth of what a generated definition is (it emits the Rust source and the surface descriptor from the same record). Skipped fields are not part of the model value: that they decode to Default is checked by the harness oracle. Bound generation (trait_bounds.rs) is covered only as 'the generated programs compile'. Finding F2 was a genuine defect, repaired by a fix: commit.",
        "trusted_base": COMMON_TB + ["gen/gen_programs.py (definition -> Rust source + surface descriptor)"],
        "assumptions": ["as C02"],
    },
    "C17": {
        "streams": [],
        "custom": c17_run,
        "disagreement_is_violation": True,
        "rule": "generated enum definitions over {index attribute, explicit discriminant, implicit position, skip} assignments with indices drawn boundary-biased from 0..=300 (0,1,2,3,254,255,256,257,300 and random; rustc's own discriminant rules respected), each paired with a minimally different twin (an invalid one repaired, a valid one given a collision); the finite set of attribute-conflict cases (all 8 subsets of skip/compact/encoded_as on a struct field and on a variant field), a union, 256 vs 257 encodable variants with and without skipped ones, and the CompactAs shapes (tuple / named-with-skipped / two fields / unit / only-skipped / enum); every program derives Encode and Decode together; one module file per program in one scratch crate, compiled with ONE cargo check --message-format=json per shard (120 programs quick, 5x300 thorough) against the crate's derive; rejected(p) := some error diagnostic lies in p's file (through the macro-expansion span chain); compared with the model's accepts(p) on the program's surface descriptor; oracle: a planted fault must be rejected and a fault-free twin must compile. non-trivial = distinct program Also: attribute conflicts written as one comma-separated list; both orders of index/skip attributes; discriminants given by constant expressions colliding with literal-known indices; the same type parameter in plain and skipped/compact roles (valid, must compile).",
        "level_text": "Proved in Lean: the transliterated decision logic of the derive (per-field attribute exclusivity, try_get_variants' > 256 bound, variant_index precedence, the generated const block's search_for_invalid_index and the nested-loop duplicate_info) accepts a definition IFF it is valid in the property's sense - no two encodable variants share an index (whether from index attributes, discriminants or implicit positions among the NON-skipped variants), no index exceeds 255, at most 256 encodable variants, at most one of skip/compact/encoded_as per field, not a union; duplicate_info is complete (reports iff not Nodup); derive(CompactAs) is accepted iff the input is a struct with exactly one non-skipped field. The decision model is tied to the real derive + rustc by compiling generated programs and comparing accept/reject per program.",
        "level_note": "Partial by nature: that rustc expands the macro, evaluates the generated const block and reports its panic as a compile error is the compiler's behaviour, observed (per program, by file attribution of JSON diagnostics), not proved. Bound generation (trait_bounds.rs) enters only through 'valid twins compile'. Field types are u32 throughout (C05 covers type variety).",
        "trusted_base": COMMON_TB + ["rustc / cargo check JSON diagnostics; the program generator (definition -> source + surface descriptor)"],
        "assumptions": ["diagnostics carry the file of the offending program somewhere in their expansion span chain"],
    },
    "C20": {
        "streams": [],
        "custom": c20_run,
        "disagreement_is_violation": True,
        "rule": "the harness is built against the crate in 4 feature configurations (8 thorough): std+chain-error with all optional integrations (default); no_std+alloc with all; no_std+chain-error with all; no_std+alloc with bit-vec/bytes/generic-array off (derive and max-encoded-len stay on: the harness's own types need them); thorough adds std with each optional integration alone and with none (same corpus: thorough adds configurations, not values). The same deterministic corpus (streams enc, rt, mut, rand, exh, decall, count, skip, mem over every catalogue type, plus big, bigmem and append available in that configuration; seed in the evidence) runs in each build; every configuration's answers are compared with the SAME model answers and, request by request, with each other; a digest per configuration is recorded. non-trivial = distinct request whose model answer is not `err`",
        "level_text": "Decided by the correspondence: identical bytes, accept/reject decisions and values in every feature configuration, each equal to the model. Proved in Lean (what a configuration can legitimately touch): the no_std Output instance (Vec::extend_from_slice) and the std one (io::Write::write_all over a writer accepting arbitrary short writes) are both appending sinks and therefore observe the same byte string however the encoder splits its output; the model's failure value carries no information, so no modelled decision can depend on an error's description (chain-error).",
        "level_note": "Partial by nature: a theorem cannot see a cfg-gated code path the model does not have; only the per-configuration runs can. derive and max-encoded-len are on in every configuration because the harness's own catalogue types derive them; the optional integrations are toggled. Error descriptions are not compared (only ok/err).",
        "trusted_base": COMMON_TB + ["cargo feature resolution"],
        "assumptions": ["the same seed produces the same corpus in every configuration (checked: requests common to two configurations are compared pairwise)"],
    },
    "C10": {
        "streams": ["ledger"],
        "custom": c10_run,
        "rule": "an instrumented element type (global ledger of ids; its decoder reads one byte: constructs, fails as malformed, panics, or finds the input exhausted) decoded inside [T;N], Box<[T;N]>, Rc<[T;N]>, Arc<[T;N]>, a repr(transparent) newtype over [T;N] (derived decode_into) and its Box, [Box<T>;N], [[T;2];N], [Option<T>;N], Vec, VecDeque, LinkedList, Box<Vec>, Vec<Box>, BTreeMap, Option, Result, tuples, Box<tuple>, a derived struct (array + skipped field + Vec + Box) and a derived enum; N in {0,1,2,3,5,8,17,40} (thorough adds 4,6,7,16,31,32,33); EXHAUSTIVE over that grid: the no-failure case and every failure position k < N x {input exhausted, malformed element, panic in the element decoder}; plus a memory limit hit at every k inside [Box<T>;N] and a depth limit inside Vec<Box<T>>. Each case under catch_unwind; oracle: after the result (if any) is dropped every constructed id was dropped exactly once, no id dropped that was never constructed, a successful decode had dropped nothing and constructed all N; the (outcome, constructed, dropped, handed-over) summary is compared with the model for the array / boxed-array / owner-collection shapes (GenericArray<T,N> and its holders included). MIRI stage (harness/miri, `cargo +nightly miri run`): ~700 of the same cases (arrays N in {0,1,2,5} x every failure position x {malformed, panic, exhausted}; Box/Rc/Arc of arrays; repr(transparent) newtypes incl. one whose only non-zero-sized field is #[codec(skip)] and one with an encoded zero-sized field, read back after decoding; Vec/VecDeque/LinkedList/BTreeMap; derived struct and enum; GenericArray; memory and depth limits hit inside holders; bulk reads that run short) are interpreted by Miri with an element type that owns a heap block: an uninitialised read, invalid or double free, use after free, or (at exit) a leak is an oracle failure naming the case. non-trivial = distinct request whose model answer is not `err`",
        "level_text": "Proved in Lean on an explicit event model of the hand-rolled ownership paths, for EVERY length N, failure position and kind: [T;N]::decode_into either constructs and hands over all N elements (none dropped) or stops at the first failing element k, drops exactly the k constructed elements - each once, never an unconstructed one - and hands nothing over (also when the element decoder panics: the guard runs on unwind); without drop glue the guard does nothing; Box::decode_wrapped allocates its block at most once and frees it exactly when decoding fails, without touching the payload's own ledger. Tied to src/codec.rs by replaying the exhaustive failure grid on the real code with a ledger-instrumented element type.",
        "level_note": "Partial: Rust's drop elaboration (locals dropped on `?`, unwinding order) is built into the model as the language rule it is; use-after-free and reads of uninitialised memory are not expressible in the ledger model; they are looked for on the implementation by the Miri stage (an interpreter run over ~700 scripted cases - a test, not a proof; skipped with a note in the evidence if the nightly Miri toolchain is absent).",
        "trusted_base": COMMON_TB + ["Rust drop and unwinding semantics; catch_unwind", "Miri (nightly toolchain) as the detector of undefined behaviour and leaks in the interpreted cases"],
        "assumptions": ["the element type's Drop only records"],
    },
    "C09": {
        "streams": ["alloc", "allocf4", "dvl"],
        "custom": c09_run,
        "rule": "the harness runs under a counting global allocator (armed only around the decode call; self-tested on every run). For every catalogue type (all sequence/map/set/list/heap/deque/string/bit-sequence/byte-buffer kinds and their nestings, derived types): valid encodings, and encodings in which each byte position in turn (every position of short encodings, 8 random positions of longer ones) is overwritten by a hostile compact count (2^16, 2^20, 2^24, 2^28, 2^30-1, 2^30, 2^32-2, 2^32-1) followed by 0, <64, 4096, 20000 or 65536 bytes of plausible payload; each decoded from a slice, a custom input with remaining_len = None, IoReader<Cursor>, the shared buffer (decode_from_bytes) and a zero-sized input type. (1) `reqs` requests - exact tie of the request model: for every type all of whose allocations are the crate's own (Vec/VecDeque/BinaryHeap/LinkedList/String/Box/arrays/tuples/options/enums/derived types over them; not Rc/Arc/B-trees/Bytes/BitVec/GenericArray) the allocator's view of the decode - number of requests, sum of requested bytes (fresh allocations plus realloc growth), largest request, and ok/err - from the slice and from the unknown-length input is compared for EQUALITY with the model's request trace (Impl.decodeR run under the request recorder; on failing decodes requests of exactly size_of::<Error>() - the boxed cause of a chained error - are left out on both sides); inputs above 4200 bytes are sampled 1 in 16. (2) oracles on the implementation for every type and input kind: largest single allocation <= max(64 KiB, 192 x input bytes) + 8 KiB + size_of::<T>(); peak live bytes <= 8 x 64 KiB + 192 x input bytes + 8 KiB + size_of::<T>(); no panic; a request above 2 GiB is refused and the resulting abort attributed to the request being executed. Outcomes of inputs of at most 80 bytes are also compared with the model. non-trivial = distinct request whose model answer is not `err` Also the `dvl` stream: decode_vec_with_len called directly with any length; allocator oracle and hook announcements compared with the model.",
        "level_text": "Proved in Lean for EVERY byte string (valid, truncated, hostile; successful or failing decode), over a slice and over a reader that cannot report its remaining length (any `PlainIn` input): the heap memory the decoder REQUESTS - every reserve_exact of decode_vec_chunked (item and bulk paths), every Box allocation, one node per element handed to from_iter for lists/sets/maps, made explicit in the request-instrumented decoder Impl.decodeR, which is proved to be the decoder itself up to alloc nodes (same result and rest on every hook-free input) - is at most reqRatio(ty) x bytes CONSUMED + the type's fixed pointees + reqAllow(ty), where reqAllow is one MAX_PREALLOCATION (16 KiB) plus one element's fixed pointees per level of sequence nesting, and without the allowance when the decode succeeds (requests_linear_in_consumed_partial / _in_input_partial: induction over all programs and all types through the chunk loops; claimed counts do not occur in the bound). Hypothesis `productive ty` (every sequence element type consumes >= 1 byte - decidable); without it the statement is proved FALSE (unproductive_unbounded) - finding F4. Unconditionally, over ANY input implementation and every type: every SINGLE request is at most max(16 KiB, largest boxed pointee / list node of the type) (every_request_small). Also: chunk reservations <= 16 KiB one chunk at a time; hostile primitive counts rejected over any faithful input; held memory of decoded values linear in the encoding. The request model is tied to the crate by exact comparison with a counting allocator (count, sum and maximum of requests, per input, slice and unknown-length input).",
        "level_note": "Partial: the theorem is about the crate's own allocation sites as modelled in Impl.decodeR; what std does behind them (B-tree node allocation - modelled as at most one node per element -, Rc/Arc re-boxing, Bytes/BitVec wrappers, GenericArray's temporary Vec of fixed size) is MEASURED against fixed generous bounds, not proved. Known finding F4 (zero-width element types: LinkedList<()>, Vec of an all-skipped struct) is reported as KNOWN-FINDING, matched by type; any other breach of the bound or disagreement with the request model is a violation.",
        "trusted_base": COMMON_TB + ["the harness's counting #[global_allocator] (self-tested each run); Vec::reserve_exact / Box allocation request exactly what is asked (std); std collections' internal allocation behaviour is measured, not modelled"],
        "assumptions": ["allocation bound constants of the measured oracle: 192 bytes of memory per input byte, 64 KiB fixed allowance per nesting level (8 levels), 8 KiB slack", "a boxed Error (chain-error) is the only allocation of a failing decode that is not a request of the decoder"],
        "disagreement_is_violation": False,
    },
}
