"""Per-property configuration of ./check: request streams, evidence texts."""

COMMON_TB = [
    "Lean 4.33.0 kernel; axioms allowed in property theorems: propext, Classical.choice, Quot.sound (audited by #print axioms on every run)",
    "hand-written Lean model (lean/Scale/*.lean) of the Rust source; tied to /repo by differential execution of the same requests through the real crate (harness/) and the compiled model (scale_model)",
    "Rust std/alloc/core, rustc, cargo; the harness's Modeled constructor table and canonicaliser",
]

PROPS = {
    "C04": {
        "streams": ["compact"],
        "level_text": "Proved in Lean for every value below 2^W and every byte string, for the five widths: each transliterated encoder equals the specification's shortest form and never asserts; compact_len equals the produced length; the fixed-capacity using_encoded path never overflows; decode accepts bs iff bs = canonical(x) ++ rest with x < 2^W (round trip + canonicity + uniqueness); width compatibility; the decoder never panics. The model is tied to src/compact.rs by running both on ~7*10^5 (quick) cenc/cdec requests incl. exhaustive u8/u16 values and all byte strings of length <=2.",
        "level_note": "Trusted: Lean kernel (axioms propext/Quot.sound/Classical.choice only), the hand transliteration of src/compact.rs (checked differentially, not proved), Rust toolchain. u32 is not enumerated exhaustively through the text protocol: the theorem covers all values.",
        "disagreement_is_violation": True,
        "rule": "cenc/cdec requests for all five widths: exhaustive u8/u16 values, class boundaries +-window, "
                "<=2 non-zero byte lanes, random values; decoders on every string of length <=2, every "
                "(tag byte x top byte x length) combination, valid+suffix, mutated and random strings. "
                "non-trivial = distinct request whose model answer is not `err`",
        "trusted_base": COMMON_TB + ["src/compact.rs transliterated in lean/Scale/Compact.lean (five encoders, five compact_len, five decoders with PrefixInput reads, ArrayVec capacity assert)"],
        "assumptions": ["u8..u128 arithmetic is modelled on Nat with explicit `% 2^k` at each cast/shift the source performs",
                        "leading_zeros is modelled as W - bitLen (Nat.log2)"],
    },
    "C01": {
        "streams": ["enc", "big"],
        "disagreement_is_violation": True,
        "rule": "enc requests (value text -> bytes) for every catalogue type (~270 instantiations: all primitives, compact, NonZero, Option/Result/OptionBool, all six collections, arrays, tuples to 18, String/Cow, Box/Rc/Arc, PhantomData, Duration, ranges, all bit stores x orders, Bytes, GenericArray, derived structs/enums incl. skip/compact/encoded_as/CompactAs/index attr/discriminant/recursive/transparent/generic) with boundary-biased values, plus vectors/deques/lists/sets whose lengths straddle k*16KiB/size_of. non-trivial = distinct request whose model answer is not `err`",
        "level_text": "Proved in Lean for every well-formed value of every modelled type (structural induction over the type descriptor, no size bound): the transliterated encode_to (bulk path for the 12 primitive element types, compact_encode_len_to(..).expect, bit-sequence re-chunking with zero padding for all stores/orders, enum index byte, transparent wrappers) produces exactly Spec.encode, the written-out SCALE format, and reaches no panic site. Spec.encode is pinned by the repository's own hex vectors (kernel-checked `decide` examples). The model is tied to the crate by running both on every catalogue type's generated values each run.",
        "level_note": "Trusted: Lean kernel; the hand-written model (differentially checked, not proved, against src/codec.rs, src/compact.rs, src/bit_vec.rs, src/generic_array.rs, derive/src/encode.rs); to_le_bytes / as_byte_slice / bitvec chunking modelled by contract; floats are bit patterns; memory reinterpretation in the bulk path assumed little-endian (harness reports the target's endianness).",
        "trusted_base": COMMON_TB + ["to_le_bytes, byte-slice-cast (little-endian target), bitvec chunks/copy_from_bitslice modelled by contract"],
        "assumptions": ["recursive derived types are modelled by finite unfoldings", "size_of values are measured by the harness and passed in the type descriptor"],
    },
    "C02": {
        "streams": ["rt", "big"],
        "rule": "dec requests on encode(v) ++ random suffix (0..3 bytes) for every catalogue type; lengths straddling k*16KiB/size_of for 22 element/collection combinations incl. ZST elements; oracle on the implementation: decoded value text == original (bit-equal floats, heaps as sorted multisets) and remaining == suffix length. non-trivial = distinct request whose model answer is not `err`",
        "level_text": "Proved in Lean: for every well-formed value of every modelled type and every suffix, running the transliterated decoder (chunked item reader, bulk read_vec_from_u8s, hook calls, PrefixInput reads, from_iter for maps/sets, bit-sequence truncation) on Spec.encode v ++ rest returns (norm v, rest) - by structural induction, so it crosses the 16 KiB chunk loop for all lengths. norm is the identity except that heaps are compared as sorted multisets (permutation proved). Tied to the crate by the rt/big streams and by the implementation-side oracle decode(encode v) == v.",
        "level_note": "Trusted: as C01. Hypotheses, all decidable and exhibited satisfiable: wf (ranges, counts < 2^32, bits < 2^29, valid UTF-8), canon (map/set keys strictly increasing under the modelled Ord - std's Ord is a contract, exercised by the tie), layoutOk (the crate's own compile-time size_of <= MAX_PREALLOCATION assertion). Values in a skipped variant are excluded (no encoding by design); skipped fields are not part of the model value (the harness checks they come back as Default).",
        "trusted_base": COMMON_TB + ["std Ord of key types, BTreeMap/BTreeSet::from_iter, BinaryHeap::from(Vec), String::from_utf8 modelled by contract"],
        "assumptions": ["equality of derived types is equality of the model value text (skipped fields excluded)"],
        "also_oracles": [],
    },
    "C14": {
        "streams": ["cut", "concat", "decall", "big"],
        "rule": "every cut point (all for encodings <=48 bytes, head/tail plus a sample beyond) of generated encodings of every catalogue type (oracle: must fail); heterogeneous concatenations of 2..50 encoded values of mixed catalogue types decoded value by value (oracle: each value recovered, exact consumption); decode_all / decode_all_with_depth_limit(64) vs decode on valid, suffixed, mutated and double encodings (oracle: ok iff decode ok with nothing left). non-trivial = distinct request whose model answer is not `err`",
        "level_text": "Proved in Lean: (generic over every decoder program) a successful decode consumes a prefix and is unaffected by following bytes; hence with the C02 round trip: decoding any strict prefix of an encoding fails with an error (never a panic), a concatenation of encodings of arbitrary mixed types decodes value by value leaving the rest, decode_all / decode_all_with_depth_limit succeed iff decode succeeds with empty remainder (same value), and decode_all rejects any trailing bytes. Tied to the crate by the cut/concat/decall streams and the implementation-side oracles.",
        "level_note": "Trusted: as C02 (same hypotheses wf/canon/layoutOk, plus widthsOk: Compact<_> nodes have one of the crate's five widths).",
        "trusted_base": COMMON_TB,
        "assumptions": ["as C02"],
    },
    "C03": {
        "streams": ["mut", "rand", "exh", "utf8", "big"],
        "disagreement_is_violation": True,
        "rule": "dec requests for every catalogue type on four byte-string streams: mutations of valid encodings (bit flips, boundary bytes, truncation, extension, count tampering at the front and at inner positions with {0,1,2,63..65,2^14-1,2^14,2^30-1,2^30,2^32-2,2^32-1}, splices, insert/delete), random strings (tag-biased), exhaustive strings of length <=1 for all types and <=2 for small-alphabet types (boundary alphabet otherwise), and the UTF-8 stream (all 1-2 byte strings, 3-byte strings with lead E0..EF x all second bytes, boundary 4-byte forms); every call in catch_unwind. non-trivial = distinct request whose model answer is not `err`",
        "level_text": "Proved in Lean for every byte string: the modelled decoder is total (kernel-accepted recursion) and never panics (the unreachable!/assert!/UNEXPECTED ERROR sites are dead); it consumes a prefix only; for every wire-canonical type (all but maps/sets/heaps/bit sequences) decode bs = (ok v, rest) IFF wf v and bs = SCALE-encoding(v) ++ rest - the decoder accepts exactly the SCALE language; each rejection the property names is a theorem (bad tags for bool/Option/Result/OptionBool, unknown variant index, zero NonZero, nanos >= 10^9, invalid UTF-8, non-minimal/over-wide compact, > 2^29-1 bits, primitive count exceeding the data). The model is tied to the crate on ~10^5 hostile and random strings per run incl. an exhaustive-prefix UTF-8 stream.",
        "level_note": "Trusted: as C01. utf8Valid is the model's own UTF-8 automaton; its agreement with core::str::from_utf8 is established by the utf8 stream, not by proof. Out-of-bounds reads are not expressible in the model (the slice bounds check is modelled). Non-productive recursive types (finding F5) have no finite unfolding and are outside the model. For maps/sets/heaps/bit sequences only soundness (round trip of the normalised value), not the iff, is proved: their documented non-canonical acceptances (unsorted/duplicate entries, heap order, padding bits) are by design.",
        "trusted_base": COMMON_TB + ["core::str::from_utf8 (contract: utf8Valid), checked on the utf8 stream"],
        "assumptions": ["recursive derived types are unfolded deeper than the input is long"],
    },
    "C18": {
        "streams": ["skip", "len"],
        "rule": "skip vs dec (outcome and remaining length) for every catalogue type on valid+suffix, mutated, truncated and exact encodings; encoded_fixed_size() of every catalogue type vs the model; DecodeLength::len on generated values (incl. 20k-element ones) of the six collections and of tuples led by them, and on mutated strings. Oracles on the implementation: skip == decode (ok-ness and position), len == true element count, fixed size == every value's size. non-trivial = distinct request whose model answer is not `err`",
        "level_text": "Proved in Lean: DecodeLength::len on encode(coll) ++ rest is the element count, for all six collection kinds and tuples led by them; for every type and every byte string skip succeeds iff decode succeeds and then leaves the input at the same position (including the [T;N] override that skips fixed-size elements one at a time while decode reads them in bulk - shown equivalent to one bulk read); a reported encoded_fixed_size is the length of every value's encoding. Tied to the crate by the skip/len streams and oracles.",
        "level_note": "Trusted: as C01. After a *failed* skip/decode the position of the input is not compared (the bulk decode leaves a slice untouched where the element-wise skip has consumed some elements; the property speaks of success position and of failing exactly when decode fails).",
        "trusted_base": COMMON_TB,
        "assumptions": ["as C01"],
    },
    "C19": {
        "streams": ["count", "wrapops"],
        "rule": "(i) the wrapper itself: seeded operation sequences (read n with n in {0,1,small,exact remaining,remaining+1,huge}, read_byte, remaining_len, descend_ref, ascend_ref, on_before_alloc_mem; length 1..100) applied to a real CountedInput over a slice and to the model's countedInput sliceInput, the operation's result and count() compared after every operation; (ii) decoders through it for every catalogue type on exact, suffixed, mutated and truncated encodings: on success value, remaining and count are compared with the model; after success AND failure the implementation-side oracle count() == original_len - remaining_len is checked (positions at failure are not compared with the model). non-trivial = distinct request whose model answer is not `err`",
        "level_text": "Proved in Lean for ANY wrapped input and ANY (adaptive) sequence of Input operations, successful or failing: CountedInput's count() equals the exact number of bytes the wrapped input delivered, saturated at u64::MAX, and the wrapper alters neither results nor the wrapped input (one exact-simulation theorem over all decoder programs). Over a slice: count == original length - remaining length after every decode, successful or failed; == encoded length after decoding an encoding; a failed read adds nothing; the counter never decreases nor exceeds u64::MAX. Tied to src/counted_input.rs by operation sequences on the real wrapper and by all catalogue decoders run through it.",
        "level_note": "Trusted: as C01. Saturation beyond 2^64 bytes cannot be exercised on real hardware; it is covered by the theorem (the model adds with min at 2^64-1 exactly as saturating_add / try_into().unwrap_or(u64::MAX)) and by the transliteration being compared on every other path.",
        "trusted_base": COMMON_TB,
        "assumptions": ["the wrapped input does not override scale_internal_decode_bytes (true of every input CountedInput can wrap through its public constructor: the override is not forwarded)"],
    },
    "C11": {
        "streams": ["limit", "decall"],
        "rule": "limit requests: for every catalogue type (nesting Vec, Box, Rc, Arc, BTreeMap, BTreeSet, LinkedList, VecDeque, BinaryHeap, Option, tuples, recursive derived Tree/Chain) on valid, mutated and suffixed encodings, every limit L = 0..need+2 (need = least succeeding limit, scan capped at 12 when none succeeds): value, remaining compared with the model; oracles: transparent (ok => equals unlimited), monotone in L, some limit succeeds when unlimited does; decode_all_with_depth_limit vs decode. non-trivial = distinct request whose model answer is not `err`",
        "level_text": "Proved in Lean for every type, byte string and limit (lax simulation theorem over all decoder programs between the unlimited input, a depth-recording specification input and the transliterated DepthTrackingInput): limited decoding returns exactly the unlimited result (value and position) or an error; when unlimited decoding succeeds, the limited one succeeds with the same result IFF L >= need, where need is the maximal number of simultaneously open descend_ref calls of the unlimited run (hence monotone in L, success for all L >= need, failure for all L < need); decode_all_with_depth_limit succeeds iff decode_with_depth_limit succeeds with nothing left. Tied to the crate by the limit stream over all L around the threshold.",
        "level_note": "Trusted: as C01. Partial: (1) 'stack-safe' - the theorem bounds the number of open descend_ref levels, i.e. decoder frames of heap-allocating containers, not machine stack bytes; survival of 10^6-deep input on a small stack is a harness observation (thorough tier), not a theorem. (2) need <= value nesting depth is checked by the tie (every L from 0), the theorem fixes need as a property of the unlimited run.",
        "trusted_base": COMMON_TB,
        "assumptions": ["the model runs the wrapper over a slice; C08 extends to other inputs"],
    },
    "C12": {
        "streams": ["mem", "wrapops"],
        "rule": "mem requests for every DecodeWithMemTracking catalogue type on valid and mutated encodings: first L = usize::MAX (gives U = used_mem()), then every L in 0..=U+1 when U <= 96 (4096 thorough), boundary limits {0,1,U/2,U-1,U,U+1,2U} otherwise: result, remaining and used_mem() compared with the model after success and failure; oracles: non-binding limit transparent, success for all L > U, failure for all 0 < L <= U; plus operation sequences (hook sizes incl. 0, usize::MAX and saturating sums; limits incl. 0 and usize::MAX) on a real MemTrackingInput vs the model, used_mem() compared after every operation. non-trivial = distinct request whose model answer is not `err`",
        "level_text": "Proved in Lean for every type, byte string and limit L <= usize::MAX: memory-limited decoding returns exactly the unlimited result or an error; with U the tracked usage of the unlimited run, if unlimited decoding succeeds then L > U gives the same value, position and used_mem = U, and U > 0 with L <= U gives an error - a single exact threshold (hence monotone). The hook sizes (chunked vec reservations, Box sizes, list node sizes, the transliterated mem_size_of_btree estimate) are part of the decoder model and compared with used_mem() of the real MemTrackingInput on every request.",
        "level_note": "Trusted: as C01; size_of values and the b-tree leaf size are measured by the harness in the same build and passed in the type descriptor. Partial: 'U is zero for values holding no heap data and at least the payload bytes' is established per request by comparing the model's U with the real used_mem() and by the kernel-checked examples; the general value-level lower bound is not yet a theorem.",
        "trusted_base": COMMON_TB + ["size_of::<T>() measured by the harness"],
        "assumptions": ["limits are usize values (L <= 2^64-1)"],
    },
}
