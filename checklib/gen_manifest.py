#!/usr/bin/env python3
"""Regenerate /verif/MANIFEST.json from checklib/props.py (claimed checks) and properties.jsonl."""
import json, os, sys
sys.path.insert(0, os.path.dirname(os.path.abspath(__file__)))
import props
V = os.path.dirname(os.path.dirname(os.path.abspath(__file__)))
ids = [json.loads(l)["id"] for l in open(os.path.join(V, "properties.jsonl"))]
checks, na = [], []
for pid in ids:
    c = props.PROPS.get(pid)
    if c and c.get("claimed", True):
        checks.append({
            "property_id": pid,
            "quick_cmd": "./check %s --tier quick" % pid,
            "thorough_cmd": "./check %s --tier thorough" % pid,
            "evidence_file": "evidence/%s.json" % pid,
            "replay_cmd_template": "./check %s --replay {path}" % pid,
            "engine": "lean-model+correspondence",
            "level_claimed": {"category": "proof", "text": c["level_text"], "design_ref": c.get("design_ref", "DESIGN.md §4 " + pid)},
            "level_note": c["level_note"],
            "technique": c.get("technique", "Lean 4 theorems over a hand-written model + differential correspondence check against the crate"),
        })
    else:
        na.append({"property_id": pid, "reason": (c or {}).get("na_reason", "check not built yet in this round (planned: Lean theorem + correspondence, see DESIGN.md §4 %s)" % pid)})
m = {
    "version": 1,
    "setup_cmd": "./setup.sh",
    "hooks": {
        "guard": "parity_scale_codec_verif",
        "enable": "no source hooks are needed: every observation goes through the crate's public API (the harness depends on /repo by path and is rebuilt by every check)",
        "baseline_off_cmd": "cd /repo && cargo test --workspace --no-fail-fast --offline",
        "source_commits": [],
        "add_only": True,
    },
    "engines": [
        {"name": "lean-model+correspondence", "path": "check", "serves_properties": [c["property_id"] for c in checks],
         "kind_free_text": "Lean 4 proofs (lean/Props/*.lean) about an executable model (lean/Scale/*.lean); Rust harness (harness/) drives the real crate and the compiled model (scale_model) with the same requests and diffs the answers"},
    ],
    "checks": checks,
    "not_applicable": na,
    "notes": "See DESIGN.md. Known findings: known_findings.json.",
}
json.dump(m, open(os.path.join(V, "MANIFEST.json"), "w"), indent=1)
print("claimed:", [c["property_id"] for c in checks])
