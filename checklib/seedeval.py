#!/usr/bin/env python3
"""
seedeval.py <lane-name> <seed-id> [<seed-id> ...] [--checks C01,C02 | --all]

Re-evaluates seeded changes kept under /verif/seeded/<id>/ (patch.diff + meta.json) against the
CURRENT base of /repo with the frozen copies of harness and model (.build/harness-frozen,
.build/scale_model-frozen): one scratch worktree per lane (/tmp/seedw/<lane>, reset to /repo's HEAD
for every change), the patch applied there, the selected checks run with VERIF_REPO pointing at it
(default: the check of the property the change was written against), the verdicts merged into
meta.json. The lane's build directory is kept between changes (incremental rebuilds) and removed
at the end. /repo itself is never touched.
"""
import sys, os, subprocess, json, re, time, hashlib, shutil

lane = sys.argv[1]
args = sys.argv[2:]
checks = None
run_all = "--all" in args
if "--checks" in args:
    checks = args[args.index("--checks") + 1].split(",")
ids = [a for a in args if re.match(r"^C\d\d-m\d+$", a)]
WT = "/tmp/seedw/%s" % lane
os.makedirs("/tmp/seedw", exist_ok=True)
head = subprocess.run("git -C /repo rev-parse HEAD", shell=True, stdout=subprocess.PIPE, text=True).stdout.strip()
if not os.path.exists(WT):
    subprocess.run("git -C /repo worktree add --detach %s %s -q" % (WT, head), shell=True, check=True)
man = json.load(open("/verif/MANIFEST.json"))
all_checks = [c["property_id"] for c in man["checks"]]
env = dict(os.environ, VERIF_REPO=WT,
           VERIF_MODEL_EXE="/verif/.build/scale_model-frozen" if os.path.exists("/verif/.build/scale_model-frozen") else "",
           VERIF_HARNESS="/verif/.build/harness-frozen" if os.path.exists("/verif/.build/harness-frozen") else "")
for sid in ids:
    d = "/verif/seeded/%s" % sid
    mp = os.path.join(d, "meta.json")
    meta = json.load(open(mp)) if os.path.exists(mp) else {"id": sid, "property": sid.split("-")[0]}
    subprocess.run("git checkout -q -- . && git clean -fdq -e target && git checkout -q --detach %s" % head, cwd=WT, shell=True, check=True)
    r = subprocess.run("git apply %s/patch.diff" % d, cwd=WT, shell=True, stdout=subprocess.PIPE, stderr=subprocess.STDOUT, text=True)
    meta["base_of_last_evaluation"] = head[:7]
    if r.returncode != 0:
        meta["patch_applies_on_current_base"] = False
        meta["apply_error"] = r.stdout[-300:]
        json.dump(meta, open(mp, "w"), indent=1)
        print(sid, "PATCH DOES NOT APPLY on", head[:7])
        continue
    meta["patch_applies_on_current_base"] = True
    todo = all_checks if run_all else (checks or [meta["property"]])
    results = meta.get("checks", {})
    for cid in todo:
        t0 = time.time()
        rr = subprocess.run("./check %s --tier quick" % cid, cwd="/verif", shell=True, stdout=subprocess.PIPE, stderr=subprocess.PIPE,
                            text=True, timeout=3600, env=env)
        vio = [l for l in rr.stdout.split("\n") if l.startswith("VIOLATION")]
        results[cid] = {"rc": rr.returncode, "violation": vio[0] if vio else None, "wall_s": round(time.time() - t0, 1)}
        if vio:
            m = re.search(r"replay=(\S+)", vio[0])
            if m and os.path.exists(m.group(1)):
                rp = json.load(open(m.group(1)))
                results[cid]["replay_excerpt"] = json.dumps(rp.get("failing_input") or rp.get("no_longer_checks"))[:700]
    meta["checks"] = results
    meta["caught_by"] = sorted(c for c, r_ in results.items() if r_["rc"] != 0)
    meta["caught_by_target_property"] = meta["property"] in meta["caught_by"]
    json.dump(meta, open(mp, "w"), indent=1)
    print(sid, "target=%s" % meta["caught_by_target_property"], "caught_by=%s" % meta["caught_by"], flush=True)
subprocess.run("git checkout -q -- . && git clean -fdq", cwd=WT, shell=True)
shutil.rmtree("/verif/.build/alt-" + hashlib.sha1(WT.encode()).hexdigest()[:8], ignore_errors=True)
