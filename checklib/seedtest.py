#!/usr/bin/env python3
"""
seedtest.py <PROP> <N> [--checks C01,C02,...]

Confirms a seeded mutation produced in /tmp/seed/<PROP>/out/mut<N>.{diff,md}, mut<N>_demo.rs in the
scratch worktree /tmp/seed/<PROP> (compiles; existing suite passes apart from the 3 known UI
failures; demo fails with the patch and passes without), then applies it to /repo, runs the
registered checks against it, and undoes it. Results go to /verif/seeded/<PROP>-m<N>/.
"""
import sys, os, subprocess, json, shutil, re, time

prop, n = sys.argv[1], sys.argv[2]
checks = None
if "--checks" in sys.argv:
    checks = sys.argv[sys.argv.index("--checks") + 1].split(",")
WT = "%s/%s" % (os.environ.get("SEED_ROOT", "/tmp/seed"), prop)
OUT = "%s/out" % WT
sid = "%s-m%s" % (prop, n)
DST = "/verif/seeded/%s" % sid
os.makedirs(DST, exist_ok=True)
env = dict(os.environ, CARGO_TARGET_DIR=WT + "/target", CARGO_NET_OFFLINE="true")
KNOWN_FAIL = {"derive_no_bound_ui", "scale_codec_ui_tests"}


def sh(cmd, cwd=WT, timeout=3600):
    r = subprocess.run(cmd, cwd=cwd, env=env, shell=True, stdout=subprocess.PIPE, stderr=subprocess.STDOUT, text=True, timeout=timeout)
    return r.returncode, r.stdout


def suite():
    rc, out = sh("cargo test --workspace --no-fail-fast --offline 2>&1")
    failed = set(re.findall(r"^test (\S+) \.\.\. FAILED", out, flags=re.M))
    passed = len(re.findall(r"^test \S+ \.\.\. ok", out, flags=re.M))
    compiled = "error: could not compile" not in out
    return compiled, passed, sorted(f for f in failed if f.split("::")[-1] not in KNOWN_FAIL)


def demo():
    rc, out = sh("cargo test --offline --features derive,max-encoded-len,bit-vec,bytes,generic-array --test mut%s_demo 2>&1" % n)
    m = re.findall(r"test result: (\w+)\. (\d+) passed; (\d+) failed", out)
    return rc, m, out[-1500:]


RECHECK = "--recheck" in sys.argv and os.path.exists(DST + "/meta.json")
meta = {"id": sid, "property": prop, "source": "sub-agent given only the property text and a scratch worktree"}
sh("git checkout -- . && git clean -fdq -e out -e target")
if RECHECK:
    # confirmation was done before: only run the checks again (e.g. after strengthening them)
    meta = json.load(open(DST + "/meta.json"))
if not RECHECK:
  shutil.copy("%s/mut%s_demo.rs" % (OUT, n), "%s/tests/mut%s_demo.rs" % (WT, n))
  rc0, m0, tail0 = demo()
  meta["demo_without_patch"] = {"rc": rc0, "results": m0}
  rc, out = sh("git apply out/mut%s.diff" % n)
  meta["patch_applies"] = rc == 0
  rc1, m1, tail1 = demo()
  meta["demo_with_patch"] = {"rc": rc1, "results": m1, "tail": tail1[-600:]}
  os.remove("%s/tests/mut%s_demo.rs" % (WT, n))
  compiled, passed, unexpected = suite()
  meta["suite_with_patch"] = {"compiles": compiled, "passed": passed, "unexpected_failures": unexpected}
  sh("git checkout -- . && git clean -fdq -e out -e target")
  meta["confirmed"] = bool(meta["patch_applies"] and rc0 == 0 and rc1 != 0 and compiled and not unexpected)

shutil.copy("%s/mut%s.diff" % (OUT, n), DST + "/patch.diff")
shutil.copy("%s/mut%s_demo.rs" % (OUT, n), DST + "/demo.rs")
if os.path.exists("%s/mut%s.md" % (OUT, n)):
    shutil.copy("%s/mut%s.md" % (OUT, n), DST + "/notes.md")

# run the checks against the scratch worktree with the patch applied (VERIF_REPO: same check code,
# its own harness copy / target dir / evidence dir; /repo is not touched, so this can run while
# other work goes on)
results = {}
if meta["confirmed"]:
    subprocess.run("git apply out/mut%s.diff" % n, cwd=WT, shell=True, check=True)
    try:
        man = json.load(open("/verif/MANIFEST.json"))
        ids = checks or [c["property_id"] for c in man["checks"]]
        for cid in ids:
            t0 = time.time()
            for attempt in range(2):
                r = subprocess.run("./check %s --tier quick" % cid, cwd="/verif", shell=True, stdout=subprocess.PIPE,
                                   stderr=subprocess.PIPE, text=True, timeout=3600, env=dict(os.environ, VERIF_REPO=WT, VERIF_MODEL_EXE="/verif/.build/scale_model-frozen" if os.path.exists("/verif/.build/scale_model-frozen") else "",
                                            VERIF_HARNESS="/verif/.build/harness-frozen" if os.path.exists("/verif/.build/harness-frozen") else ""))
                vio = [l for l in r.stdout.split("\n") if l.startswith("VIOLATION")]
                # the harness under /verif may be mid-edit while this runs: a build failure that is
                # not caused by the change under test disappears on a second attempt
                if vio and "does not build" in r.stderr and attempt == 0:
                    time.sleep(90)
                    continue
                break
            results[cid] = {"rc": r.returncode, "violation": vio[0] if vio else None, "wall_s": round(time.time() - t0, 1)}
            if vio:
                m = re.search(r"replay=(\S+)", vio[0])
                if m and os.path.exists(m.group(1)):
                    rp = json.load(open(m.group(1)))
                    results[cid]["replay_excerpt"] = json.dumps(rp.get("failing_input") or rp.get("no_longer_checks"))[:700]
    finally:
        subprocess.run("git checkout -- . && git clean -fdq -e out -e target", cwd=WT, shell=True)
prev = meta.get("checks", {}) if RECHECK and checks else {}
prev.update(results)
results = prev
# the per-worktree build directories (harness + C20's feature configurations) are several GB each
import hashlib
shutil.rmtree("/verif/.build/alt-" + hashlib.sha1(WT.encode()).hexdigest()[:8], ignore_errors=True)
meta["checks"] = results
meta["caught_by"] = sorted(c for c, r in results.items() if r["rc"] != 0)
meta["caught_by_target_property"] = prop in meta["caught_by"]
json.dump(meta, open(DST + "/meta.json", "w"), indent=1)
print(sid, "confirmed=%s" % meta["confirmed"], "caught_by=%s" % meta["caught_by"])
